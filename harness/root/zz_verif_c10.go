package multiproof

import (
	"errors"
	"io"

	"github.com/crate-crypto/go-ipa/bandersnatch/fr"
	"github.com/crate-crypto/go-ipa/banderwagon"
	"github.com/crate-crypto/go-ipa/ipa"
)

// c10Reader: a well-behaved io.Reader over a fixed byte string with a configurable chunking policy.
type c10Reader struct {
	data        []byte
	pos         int
	chunk       int  // maximum bytes returned per call (0: as many as fit)
	eofWithData bool // return io.EOF together with the last bytes
}

func (r *c10Reader) Read(p []byte) (int, error) {
	if r.pos >= len(r.data) {
		return 0, io.EOF
	}
	n := len(r.data) - r.pos
	if len(p) < n {
		n = len(p)
	}
	if r.chunk > 0 && r.chunk < n {
		n = r.chunk
	}
	copy(p[:n], r.data[r.pos:r.pos+n])
	r.pos += n
	if r.pos == len(r.data) && r.eofWithData {
		return n, io.EOF
	}
	return n, nil
}

// c10Writer collects what is written; fails at call number failAt (counted from 1; 0 = never).
type c10Writer struct {
	out    []byte
	calls  int
	failAt int
}

func (w *c10Writer) Write(p []byte) (int, error) {
	w.calls++
	if w.failAt != 0 && w.calls == w.failAt {
		return 0, errors.New("injected write failure")
	}
	w.out = append(w.out, p...)
	return len(p), nil
}

func c10bytesEqual(a, b []byte) bool {
	if len(a) != len(b) {
		return false
	}
	for i := range a {
		if a[i] != b[i] {
			return false
		}
	}
	return true
}

// c10validPoint / c10validScalar: the validity predicates of the two field decoders (summarised symbolically).
func c10validPoint(b []byte) bool {
	var p banderwagon.Element
	return p.SetBytes(append([]byte{}, b...)) == nil
}

func c10validScalar(b []byte) bool {
	var s fr.Element
	_, err := s.SetBytesLECanonical(append([]byte{}, b...))
	return err == nil
}

// VerifC10Read: MultiProof.Read (ipa=0) or IPAProof.Read (ipa=1) on an arbitrary byte string of length L.
func VerifC10Read() {
	L := vParamInt("L")
	isIPA := vParamInt("ipa") == 1
	data := vBytes("d", L)
	if !vSymbolic() && vParamInt("badpoint") == 1 && L >= 64 {
		// concrete realisation of "an invalid point in some position": a well-formed stream (identity encodings,
		// zero scalar) whose second field is a curve point outside the prime-order subgroup
		for i := range data {
			data[i] = 0
		}
		copy(data[32:64], c10nonSubgroupPoint())
	}
	rd := &c10Reader{data: data, chunk: vParamInt("chunk"), eofWithData: vParamInt("eofdata") == 1}
	vProtect(data, "input bytes")
	need := 576
	var err error
	var mp MultiProof
	var ip ipa.IPAProof
	if isIPA {
		need = 544
		err = ip.Read(rd)
	} else {
		err = mp.Read(rd)
	}
	// reference accept set: exact length (IPA: at least 544 bytes, exactly 544 consumed), 17 (16) valid points, canonical scalar
	valid := L >= need
	if !isIPA {
		valid = L == need
	}
	if valid {
		np := need/32 - 1
		for i := 0; i < np; i++ {
			valid = valid && c10validPoint(data[32*i:32*i+32])
		}
		valid = valid && c10validScalar(data[32*np:32*np+32])
	}
	vAssert((err == nil) == valid, "Read succeeds exactly on well-formed input")
	if err == nil {
		if isIPA {
			vAssert(rd.pos == need, "IPAProof.Read consumes exactly 544 bytes")
		}
		w := &c10Writer{}
		var werr error
		if isIPA {
			werr = ip.Write(w)
		} else {
			werr = mp.Write(w)
		}
		vAssert(werr == nil, "Write of a decoded proof succeeds")
		vAssert(c10bytesEqual(w.out, data[:need]), "Write reproduces the accepted input bytes")
	}
	vReach("end")
}

func c10point(name string) banderwagon.Element {
	var s fr.Element
	s.SetString(vBigString(name))
	var p banderwagon.Element
	p.ScalarMul(&banderwagon.Generator, &s)
	return p
}

func c10scalar(name string) fr.Element {
	var s fr.Element
	s.SetString(vBigString(name))
	return s
}

func c10proof() MultiProof {
	var mp MultiProof
	mp.D = c10point("D")
	for i := 0; i < 8; i++ {
		mp.IPA.L = append(mp.IPA.L, c10point("L"))
	}
	for i := 0; i < 8; i++ {
		mp.IPA.R = append(mp.IPA.R, c10point("R"))
	}
	mp.IPA.A_scalar = c10scalar("a")
	return mp
}

// VerifC10WriteRead: Read(Write(p)) equals p; a writer failing at call failAt makes Write return an error.
func VerifC10WriteRead() {
	mp := c10proof()
	failAt := vParamInt("failAt")
	w := &c10Writer{failAt: failAt}
	err := mp.Write(w)
	if failAt >= 1 && failAt <= 18 {
		vAssert(err != nil, "a failing writer makes Write return an error")
	} else {
		vAssert(err == nil, "Write succeeds on a working writer")
		vAssert(len(w.out) == 576, "serialised multiproof has 576 bytes")
		var back MultiProof
		rerr := back.Read(&c10Reader{data: w.out, chunk: vParamInt("chunk")})
		vAssert(rerr == nil, "Read accepts what Write produced")
		if rerr == nil {
			vAssert(back.Equal(mp), "Read(Write(p)) equals p")
		}
	}
	vReach("end")
}

// c10nonSubgroupPoint: 32 bytes accepted by the unchecked decoder (on the curve) but rejected by the validating one.
func c10nonSubgroupPoint() []byte {
	for k := 1; k < 100000; k++ {
		b := make([]byte, 32)
		b[31] = byte(k)
		b[30] = byte(k >> 8)
		var p, q banderwagon.Element
		if p.SetBytesUnsafe(b) == nil && q.SetBytes(b) != nil {
			return b
		}
	}
	panic("no point outside the subgroup found")
}
