package multiproof

import (
	"github.com/crate-crypto/go-ipa/bandersnatch/fr"
	"github.com/crate-crypto/go-ipa/banderwagon"
	"github.com/crate-crypto/go-ipa/common"
)

// VerifC02Shapes: CheckMultiProof on statements of arbitrary shape: any length mismatch or zero openings gives
// (false, error) and never a panic.
func VerifC02Shapes() {
	nc, ny, nz := vParamInt("nc"), vParamInt("ny"), vParamInt("nz")
	conf := c01config()
	Cs := make([]*banderwagon.Element, nc)
	for i := range Cs {
		c := c01commitment(conf, nil, i)
		Cs[i] = &c
	}
	ys := make([]*fr.Element, ny)
	for i := range ys {
		y := c01fr("y")
		ys[i] = &y
	}
	zs := make([]uint8, nz)
	for i := range zs {
		zs[i] = uint8(vParamInt("z" + string(rune('0'+i))))
	}
	proof := c01proof()
	tr := common.NewTranscript("vt")
	ok, err := CheckMultiProof(tr, conf, proof, Cs, ys, zs)
	wellformed := nc == ny && nc == nz && nc > 0
	if !wellformed {
		vAssert(err != nil && !ok, "malformed statement gives an error and false")
	} else {
		vAssert(err == nil, "well-formed statement is processed without error")
	}
	vReach("end")
}
