package multiproof

import (
	"github.com/crate-crypto/go-ipa/bandersnatch/fr"
	"github.com/crate-crypto/go-ipa/banderwagon"
	"github.com/crate-crypto/go-ipa/common"
	"github.com/crate-crypto/go-ipa/ipa"
)

var c01conf *ipa.IPAConfig

// c01config: natively the real configuration; symbolically a configuration given by specification
// (SRS = generator symbols, Commit linear, weight tables by their defining formulas).
func c01config() *ipa.IPAConfig {
	if c01conf == nil {
		c, err := ipa.NewIPASettings()
		if err != nil {
			panic(err)
		}
		c01conf = c
	}
	return c01conf
}

// c01fr: field element from the replay file / fresh field symbol; c01zero: the literal zero.
var c01counter uint64

func c01fr(name string) fr.Element {
	var e fr.Element
	v := vBigString(name)
	if v == "0" {
		// value left open by the counterexample: distinct non-zero field elements
		c01counter++
		e.SetUint64(c01counter*0x9E3779B97F4A7C15 + 3)
		return e
	}
	e.SetString(v)
	return e
}

func c01poly(name string, zeroAt int) []fr.Element {
	f := make([]fr.Element, common.VectorLength)
	for i := range f {
		if i != zeroAt {
			f[i] = c01fr(name)
		}
	}
	return f
}

func c01zs() []uint8 {
	n := vParamInt("n")
	zs := make([]uint8, n)
	for i := range zs {
		zs[i] = uint8(vParamInt("z" + string(rune('0'+i))))
	}
	return zs
}

func c01naiveGroup(fs [][]fr.Element, powers []fr.Element, zs []uint8) [common.VectorLength][]fr.Element {
	var out [common.VectorLength][]fr.Element
	for i := range fs {
		z := zs[i]
		if out[z] == nil {
			out[z] = make([]fr.Element, common.VectorLength)
		}
		for j := range fs[i] {
			var t fr.Element
			t.Mul(&powers[i], &fs[i][j])
			out[z][j].Add(&out[z][j], &t)
		}
	}
	return out
}

// VerifC01Grouping: groupPolynomialsByEvaluationPoint against the naive per-index sum.
func VerifC01Grouping() {
	zs := c01zs()
	n := len(zs)
	fs := make([][]fr.Element, n)
	powers := make([]fr.Element, n)
	for i := 0; i < n; i++ {
		fs[i] = c01poly("f", -1)
		powers[i] = c01fr("r")
		vProtect(fs[i], "caller polynomial")
	}
	vProtect(powers, "powers of r")
	vProtect(zs, "evaluation indices")
	got := groupPolynomialsByEvaluationPoint(fs, powers, zs)
	vNote("grouped", got)
	if !vSymbolic() {
		want := c01naiveGroup(fs, powers, zs)
		ok := true
		for z := range want {
			if len(want[z]) != len(got[z]) {
				ok = false
				continue
			}
			for j := range want[z] {
				ok = ok && want[z][j].Equal(&got[z][j])
			}
		}
		vAssert(ok, "grouped polynomials equal the per-index sums of r^i * f_i")
	}
	vReach("end")
}

// VerifC01Prover: CreateMultiProof bookkeeping (IPA summarised). Natively: the full prover and verifier must agree.
func VerifC01Prover() {
	zs := c01zs()
	n := len(zs)
	conf := c01config()
	fs := make([][]fr.Element, n)
	Cs := make([]*banderwagon.Element, n)
	share := vParamInt("share") == 1
	zeroY := vParamInt("zeroy")
	for i := 0; i < n; i++ {
		if share && i > 0 {
			fs[i] = fs[0]
			Cs[i] = Cs[0]
		} else {
			za := -1
			if zeroY>>uint(i)&1 == 1 {
				za = int(zs[i])
			}
			fs[i] = c01poly("f", za)
			c := c01commitment(conf, fs[i], i)
			Cs[i] = &c
		}
		vProtect(fs[i], "caller polynomial")
	}
	vProtect(zs, "evaluation indices")
	tr := common.NewTranscript("vt")
	proof, err := CreateMultiProof(tr, conf, Cs, fs, zs)
	vNote("err", err != nil)
	if err == nil {
		vNote("D", proof.D)
	}
	if !vSymbolic() && err == nil {
		ys := make([]*fr.Element, n)
		for i := range ys {
			y := fs[i][zs[i]]
			ys[i] = &y
		}
		tv := common.NewTranscript("vt")
		ok, verr := CheckMultiProof(tv, conf, proof, Cs, ys, zs)
		vAssert(verr == nil && ok, "honest multiproof verifies")
		c1 := tr.ChallengeScalar([]byte("next"))
		c2 := tv.ChallengeScalar([]byte("next"))
		vAssert(c1.Equal(&c2), "prover and verifier transcripts yield the same next challenge")
	}
	vReach("end")
}

// c01commitment: natively Commit(f); symbolically the commitment symbol kappa_i.
func c01commitment(conf *ipa.IPAConfig, f []fr.Element, i int) banderwagon.Element {
	if f == nil {
		f = make([]fr.Element, common.VectorLength)
		f[i%common.VectorLength].SetUint64(uint64(i) + 5)
	}
	return conf.Commit(f)
}

// VerifC01Verifier: CheckMultiProof bookkeeping (IPA verification summarised).
func VerifC01Verifier() {
	zs := c01zs()
	n := len(zs)
	conf := c01config()
	Cs := make([]*banderwagon.Element, n)
	ys := make([]*fr.Element, n)
	zeroY := vParamInt("zeroy")
	fs := make([][]fr.Element, n)
	for i := 0; i < n; i++ {
		za := -1
		if zeroY>>uint(i)&1 == 1 {
			za = int(zs[i])
		}
		fs[i] = c01poly("f", za)
		c := c01commitment(conf, fs[i], i)
		Cs[i] = &c
		y := fs[i][zs[i]]
		ys[i] = &y
		vProtect(ys[i], "claimed value")
		vProtect(Cs[i], "commitment")
	}
	vProtect(zs, "evaluation indices")
	var proof *MultiProof
	if vSymbolic() {
		proof = c01proof()
	} else {
		tp := common.NewTranscript("vt")
		p, err := CreateMultiProof(tp, conf, Cs, fs, zs)
		if err != nil {
			panic(err)
		}
		proof = p
	}
	tr := common.NewTranscript("vt")
	ok, err := CheckMultiProof(tr, conf, proof, Cs, ys, zs)
	vNote("ok", ok)
	vNote("err", err != nil)
	if !vSymbolic() {
		vAssert(err == nil && ok, "honest multiproof verifies")
	}
	vReach("end")
}

// c01proof: symbolically a proof object with an abstract D (intercepted).
func c01proof() *MultiProof { return &MultiProof{} }
