package parallel

// Harnesses for C20 (parallel range splitter). Entry points are executed symbolically by
// /verif/gosmt and natively (replay) with the same source.

func c20work(n, p int, cnt, hits *int) func(int, int) {
	return func(s, e int) {
		vAssert(0 <= s, "range start non-negative")
		vAssert(s < e, "range non-empty")
		vAssert(e <= n, "range end in bounds")
		vLock()
		*cnt++
		if s <= p && p < e {
			*hits++
		}
		vUnlock()
	}
}

// VerifC20Cover: explicit worker limit m (concrete per run), n and the probe index p symbolic.
// Order-independent exact cover: the number of ranges containing p is exactly 1.
func VerifC20Cover() {
	n := vInt("n")
	m := vParamInt("m")
	p := vInt("p")
	vAssume(0 <= n && n <= 1<<62)
	vAssume(0 <= p && p < n)
	cnt, hits := 0, 0
	Execute(n, c20work(n, p, &cnt, &hits), m)
	vMark("returned")
	vAssert(hits == 1, "index p covered exactly once")
	vAssert(cnt <= m, "at most m invocations")
	vAssert(cnt <= n, "at most n invocations")
	vReach("end")
}

// VerifC20Default: no explicit limit (k=0) or an ignored list of two limits (k=2): runtime.NumCPU() workers.
func VerifC20Default() {
	n := vInt("n")
	k := vParamInt("k")
	cpus := vParamInt("numcpu")
	p := vInt("p")
	vAssume(0 <= n && n <= 1<<62)
	vAssume(0 <= p && p < n)
	cnt, hits := 0, 0
	if k == 0 {
		Execute(n, c20work(n, p, &cnt, &hits))
	} else {
		Execute(n, c20work(n, p, &cnt, &hits), 1, 3)
	}
	vMark("returned")
	vAssert(hits == 1, "index p covered exactly once (default worker count)")
	vAssert(cnt <= cpus, "at most NumCPU invocations")
	vAssert(cnt <= n, "at most n invocations")
	vReach("end")
}

// VerifC20Zero: n = 0 starts no invocation at all.
func VerifC20Zero() {
	m := vParamInt("m")
	cnt := 0
	Execute(0, func(s, e int) {
		vLock()
		cnt++
		vUnlock()
	}, m)
	vAssert(cnt == 0, "n=0: work never invoked")
	vReach("end")
}

// VerifC20Join: Execute returns only after every invocation has returned. Natively the work
// function sleeps before setting its completion flag; symbolically the join is decided on the
// happens-before structure (WaitGroup Add/Done/Wait events) recorded by the executor.
func VerifC20Join() {
	n := vInt("n")
	m := vParamInt("m")
	vAssume(0 <= n && n <= 1<<62)
	started, finished := 0, 0
	Execute(n, func(s, e int) {
		vLock()
		started++
		vUnlock()
		vSleep()
		vLock()
		finished++
		vUnlock()
	}, m)
	vMark("returned")
	vLock()
	f, st := finished, started
	vUnlock()
	exp := m
	if n < m {
		exp = n
	}
	vAssert(f == exp, "every invocation has returned when Execute returns")
	vAssert(st == exp, "every invocation has started when Execute returns")
	vReach("end")
}
