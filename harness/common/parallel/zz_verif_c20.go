package parallel

// VerifC20Cover: order-independent exact-cover harness for Execute with an explicit worker limit.
func VerifC20Cover() {
	n := vInt("n")
	m := vParamInt("m")
	p := vInt("p")
	vAssume(0 <= n && n <= 1<<62)
	vAssume(0 <= p && p < n)
	cnt, hits := 0, 0
	Execute(n, func(s, e int) {
		vAssert(0 <= s, "range start non-negative")
		vAssert(s < e, "range non-empty")
		vAssert(e <= n, "range end in bounds")
		cnt++
		if s <= p && p < e {
			hits++
		}
	}, m)
	vAssert(hits == 1, "index p covered exactly once")
	vAssert(cnt <= m, "at most m invocations")
	vAssert(cnt <= n, "at most n invocations")
	vReach("end")
}
