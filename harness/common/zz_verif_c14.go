package common

import (
	"crypto/sha256"

	"github.com/crate-crypto/go-ipa/bandersnatch/fr"
	"github.com/crate-crypto/go-ipa/banderwagon"
)

// symbolic scalars / points (intercepted by the executor); natively deterministic values from the replay file
var c14counter uint64

func c14scalar(name string) fr.Element {
	var e fr.Element
	v := vBigString(name)
	if v == "0" {
		// no value fixed by the counterexample: use distinct non-zero scalars so that absorb order is observable
		c14counter++
		e.SetUint64(c14counter*0x9E3779B97F4A7C15 + 1)
		return e
	}
	e.SetString(v)
	return e
}

func c14point(name string) banderwagon.Element {
	var p banderwagon.Element
	s := c14scalar(name)
	p.ScalarMul(&banderwagon.Generator, &s)
	return p
}

// c14Ref is the specification of the transcript: one running byte string; a challenge hashes it (SHA-256),
// reads the digest little-endian modulo r, and restarts the string with the challenge label and the challenge bytes.
type c14Ref struct {
	acc []byte
}

func (r *c14Ref) absorb(b []byte) { r.acc = append(r.acc, b...) }

func (r *c14Ref) challenge(label []byte) fr.Element {
	r.absorb(label)
	h := sha256.New()
	h.Write(r.acc)
	d := h.Sum(nil)
	var c fr.Element
	dd := make([]byte, len(d))
	copy(dd, d)
	c.SetBytesLE(dd)
	cb := c.BytesLE()
	r.acc = append(append([]byte{}, label...), cb[:]...)
	return c
}

// VerifC14Sequence: an operation sequence given by parameters (op_i, label length, message length) is run on the
// real transcript and on the specification; every challenge must agree.
func VerifC14Sequence() {
	n := vParamInt("n")
	proto := string(vBytes("proto", vParamInt("protolen")))
	t := NewTranscript(proto)
	ref := &c14Ref{acc: []byte(proto)}
	for i := 0; i < n; i++ {
		op := vParamInt("op" + string(rune('a'+i)))
		// the label is a sub-slice of a larger caller buffer (spare capacity must stay untouched)
		ll := vParamInt("ll" + string(rune('a'+i)))
		lbuf := vBytes("label", ll+40)
		vProtect(lbuf, "caller buffer holding the label passed to the transcript")
		label := lbuf[:ll]
		lcopy := append([]byte{}, label...)
		switch op {
		case 0:
			t.DomainSep(label)
			ref.absorb(lcopy)
		case 1:
			msg := vBytes("msg", vParamInt("ml"+string(rune('a'+i))))
			mcopy := append([]byte{}, msg...)
			vProtect(msg, "message given to AppendMessage")
			t.AppendMessage(msg, label)
			ref.absorb(lcopy)
			ref.absorb(mcopy)
		case 2:
			s := c14scalar("s")
			t.AppendScalar(&s, label)
			sb := s.BytesLE()
			ref.absorb(lcopy)
			ref.absorb(sb[:])
		case 3:
			p := c14point("p")
			t.AppendPoint(&p, label)
			pb := p.Bytes()
			ref.absorb(lcopy)
			ref.absorb(pb[:])
		case 4:
			c := t.ChallengeScalar(label)
			cr := ref.challenge(lcopy)
			vAssert(c.Equal(&cr), "challenge equals the specification's hash chain value")
		}
	}
	final := []byte("final")
	c := t.ChallengeScalar(final)
	cr := ref.challenge(final)
	vAssert(c.Equal(&cr), "final challenge equals the specification's hash chain value")
	vReach("end")
}
