package banderwagon

import (
	"github.com/crate-crypto/go-ipa/bandersnatch/fp"
	"github.com/crate-crypto/go-ipa/bandersnatch/fr"
)

// c19pool: three distinct elements in arbitrary representations; kind_Zk = zero makes element k un-normalisable.
func c19pool() [3]Element {
	var pool [3]Element
	for k := 0; k < 3; k++ {
		pool[k] = c07base(k)
		if !vSymbolic() {
			// the representation is (x*lam, y*lam, lam): normalise, then scale by the lam of the replay file
			if err := pool[k].Normalize(); err != nil {
				panic(err)
			}
			lam := ptfp("lam" + string(rune('0'+k)))
			pool[k] = c07scaled(pool[k], lam)
		}
		if !vSymbolic() && vParamInt("zeroz") == k+1 {
			pool[k].inner.Z = fp.Zero()
		}
		if !vSymbolic() && vParamInt("onez") == k+1 {
			if err := pool[k].Normalize(); err != nil {
				panic(err)
			}
		}
		if !vSymbolic() && vParamInt("zerox") == k+1 {
			pool[k] = Identity
		}
	}
	return pool
}

// c19stale: previous content of a result slot (arbitrary).
func c19stale() fr.Element {
	return fr.Element{11, 22, 33, 44}
}

// VerifC19Batch: the batch helpers on a list of pointers into a pool of three elements (aliasing pattern given by
// the parameters i0..i(n-1)) agree position by position with the single-element operations.
func VerifC19Batch() {
	n := vParamInt("n")
	pool := c19pool()
	orig := pool
	list := make([]*Element, n)
	for i := range list {
		list[i] = &pool[vParamInt("i"+string(rune('0'+i)))]
	}
	op := vParamInt("op")
	switch op {
	case 0:
		got := ElementsToBytes(list...)
		vNote("len", len(got))
		for i := range list {
			want := list[i].Bytes()
			vNote("got", got[i])
			vNote("want", want)
			if !vSymbolic() {
				vAssert(got[i] == want, "ElementsToBytes[i] equals elements[i].Bytes()")
			}
		}
	case 1:
		got := BatchToBytesUncompressed(list...)
		vNote("len", len(got))
		for i := range list {
			want := list[i].BytesUncompressedTrusted()
			vNote("got", got[i])
			vNote("want", want)
			if !vSymbolic() {
				vAssert(got[i] == want, "BatchToBytesUncompressed[i] equals BytesUncompressedTrusted()")
			}
		}
	case 2:
		res := make([]*fr.Element, n)
		for i := range res {
			r := c19stale()
			res[i] = &r
		}
		err := BatchMapToScalarField(res, list)
		vNote("err", err != nil)
		for i := range list {
			var want fr.Element
			list[i].MapToScalarField(&want)
			vNote("got", *res[i])
			vNote("want", want)
			if !vSymbolic() {
				vAssert(res[i].Equal(&want), "BatchMapToScalarField[i] equals MapToScalarField")
			}
		}
	case 3:
		err := BatchNormalize(list)
		vNote("err", err != nil)
		vNote("pool", pool)
		if !vSymbolic() {
			zz := vParamInt("zeroz")
			used := false
			for i := range list {
				if zz != 0 && list[i] == &pool[zz-1] {
					used = true
				}
			}
			if used {
				vAssert(err != nil, "BatchNormalize fails when an element cannot be normalised")
				for k := range pool {
					vAssert(pool[k].inner == orig[k].inner, "failed BatchNormalize modifies nothing")
				}
			} else {
				vAssert(err == nil, "BatchNormalize succeeds on normalisable elements")
				for i := range list {
					vAssert(list[i].inner.Z.IsOne(), "normalised element has Z = 1")
				}
				for k := range pool {
					vAssert(pool[k].Equal(&orig[k]), "every element stays Equal to its former value")
					vAssert(pool[k].Bytes() == orig[k].Bytes(), "every element keeps its encoding")
				}
			}
		}
	}
	vReach("end")
}
