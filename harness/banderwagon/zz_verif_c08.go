package banderwagon

import (
	"github.com/crate-crypto/go-ipa/bandersnatch"
	"github.com/crate-crypto/go-ipa/bandersnatch/fr"
)

// c08elem: the i-th pool element: natively a fixed multiple of the generator in a non-normalised representation,
// symbolically the generator symbol kappa_i.
func c08elem(i int) Element {
	p := Generator
	for k := 0; k < i+1; k++ {
		p.Double(&p)
		p.Add(&p, &Generator)
	}
	return p
}

// c08refMul: double-and-add reference (no aliasing, regular-form scalar bits).
func c08refMul(p Element, sMont fr.Element) Element {
	s := sMont
	s.FromMont()
	acc := Identity
	for b := 255; b >= 0; b-- {
		var t Element
		t.Double(&acc)
		acc = t
		if s.Bit(uint64(b)) == 1 {
			var u Element
			u.Add(&acc, &p)
			acc = u
		}
	}
	return acc
}

// VerifC08Ops: one group operation under an aliasing pattern of receiver and operands chosen from a pool of three elements.
func VerifC08Ops() {
	op := vParamInt("op")
	r, a, b := vParamInt("recv"), vParamInt("a"), vParamInt("b")
	pool := [3]Element{c08elem(0), c08elem(1), c08elem(2)}
	orig := pool
	s := fr.Element{vU64("s0"), vU64("s1"), vU64("s2"), vU64("s3")}
	var ret *Element
	switch op {
	case 0:
		ret = pool[r].Add(&pool[a], &pool[b])
	case 1:
		ret = pool[r].Sub(&pool[a], &pool[b])
	case 2:
		ret = pool[r].Double(&pool[a])
	case 3:
		ret = pool[r].Neg(&pool[a])
	case 4:
		ret = pool[r].Set(&pool[a])
	case 5:
		ret = pool[r].SetIdentity()
	case 6:
		ret = pool[r].ScalarMul(&pool[a], &s)
	case 7:
		var aff bandersnatch.PointAffine
		aff.FromProj(&orig[b].inner)
		ret = pool[r].AddMixed(&pool[a], aff)
	}
	vNote("ret_is_recv", ret == &pool[r])
	vNote("pool", pool)
	if !vSymbolic() {
		var want Element
		var nb Element
		switch op {
		case 0, 7:
			want.Add(&orig[a], &orig[b])
		case 1:
			nb.Neg(&orig[b])
			want.Add(&orig[a], &nb)
		case 2:
			want.Add(&orig[a], &orig[a])
		case 3:
			want.Neg(&orig[a])
		case 4:
			want = orig[a]
		case 5:
			want = Identity
		case 6:
			want = c08refMul(orig[a], s)
		}
		vAssert(pool[r].Equal(&want), "receiver holds the result of the group operation on the operands' previous values")
		for i := 0; i < 3; i++ {
			if i != r {
				vAssert(pool[i].Equal(&orig[i]), "elements other than the receiver keep their value")
			}
		}
		id := Identity
		gen := Generator
		vAssert(Identity.Equal(&id) && Generator.Equal(&gen), "package-level Identity and Generator unchanged")
	}
	vReach("end")
}
