package banderwagon

import (
	"github.com/crate-crypto/go-ipa/bandersnatch"
	"github.com/crate-crypto/go-ipa/bandersnatch/fr"
)

// c05tables: symbolically the executor substitutes a table given by specification
// (entry [k][j] = (j+1)*kappa_k, one generator symbol per window); natively the real table of the generator.
func c05tables(w int) [][]bandersnatch.PointExtendedNormalized {
	pp, err := NewPrecompPoint(Generator, w)
	if err != nil {
		panic(err)
	}
	return pp.windows
}

// VerifC05ScalarMul: signed-window recoding of PrecompPoint.ScalarMul for every scalar < r.
func VerifC05ScalarMul() {
	w := vParamInt("w")
	pp := PrecompPoint{windowSize: w, windows: c05tables(w)}
	s := fr.Element{vU64("s0"), vU64("s1"), vU64("s2"), vU64("s3")}
	res := bandersnatch.IdentityExt
	pp.ScalarMul(s, &res)
	vNote("res", res)
	if !vSymbolic() {
		var ref Element
		ref.ScalarMul(&Generator, &s)
		got := Element{inner: bandersnatch.PointProj{X: res.X, Y: res.Y, Z: res.Z}}
		vAssert(got.Equal(&ref), "table-based ScalarMul equals s*G")
	}
	vReach("end")
}

// VerifC05MSM: the loop of MSMPrecomp.MSM with PrecompPoint.ScalarMul summarised by its contract.
func VerifC05MSM() {
	n := vParamInt("n")
	var msm *MSMPrecomp
	if vSymbolic() {
		msm = &MSMPrecomp{}
	} else {
		msm = c05realMSM()
	}
	scalars := make([]fr.Element, n)
	for i := 0; i < n; i++ {
		zero := vBool("zero")
		if !zero {
			scalars[i] = fr.Element{vU64("s0"), vU64("s1"), vU64("s2"), vU64("s3")}
		}
	}
	vProtect(scalars, "scalars given to MSM")
	res := msm.MSM(scalars)
	vNote("res", res)
	if !vSymbolic() {
		var ref Element
		ref.SetIdentity()
		for i := range scalars {
			var t Element
			t.ScalarMul(&c05basis[i], &scalars[i])
			ref.Add(&ref, &t)
		}
		vAssert(res.Equal(&ref), "MSM equals sum s_i*G_i")
	}
	vReach("end")
}

var c05basis []Element
var c05msm *MSMPrecomp

func c05realMSM() *MSMPrecomp {
	if c05msm == nil {
		c05basis = make([]Element, supportedMSMLength)
		p := Generator
		for i := range c05basis {
			c05basis[i] = p
			p.Double(&p)
			p.Add(&p, &Generator)
		}
		m, err := NewPrecompMSM(c05basis)
		if err != nil {
			panic(err)
		}
		c05msm = &m
	}
	return c05msm
}
