package banderwagon

import (
	"math/big"

	"github.com/crate-crypto/go-ipa/bandersnatch"
	"github.com/crate-crypto/go-ipa/bandersnatch/fp"
	"github.com/crate-crypto/go-ipa/bandersnatch/fr"
)

// ptfp: a base-field symbol (symbolic run) / a value from the replay file (native run).
func ptfp(name string) fp.Element {
	var e fp.Element
	v := vBigString(name)
	if v == "0" {
		e.SetUint64(uint64(len(name))*7919 + 3)
		return e
	}
	e.SetString(v)
	return e
}

// c07base: an arbitrary valid element in an arbitrary projective representation.
// Symbolically the coordinates are free symbols (a superset of every reachable representation);
// natively the k-th pool element (a real point with Z != 1).
func c07base(k int) Element {
	return c08elem(k)
}

func c07scaled(p Element, lambda fp.Element) Element {
	var q Element
	q.inner.X.Mul(&p.inner.X, &lambda)
	q.inner.Y.Mul(&p.inner.Y, &lambda)
	q.inner.Z.Mul(&p.inner.Z, &lambda)
	return q
}

func c07flipped(p Element) Element {
	var q Element
	q.inner.X.Neg(&p.inner.X)
	q.inner.Y.Neg(&p.inner.Y)
	q.inner.Z = p.inner.Z
	return q
}

// VerifC07Invariance: Bytes, Equal and MapToScalarField do not depend on the representation.
func VerifC07Invariance() {
	p := c07base(1)
	lambda := ptfp("lambda")
	variant := vParamInt("variant")
	var q Element
	switch variant {
	case 0:
		q = c07scaled(p, lambda)
	case 1:
		q = c07flipped(p)
	case 2:
		q = c07flipped(c07scaled(p, lambda))
	case 3:
		// normalised representation of the same element
		q = p
		var zi fp.Element
		zi.Inverse(&p.inner.Z)
		q.inner.X.Mul(&p.inner.X, &zi)
		q.inner.Y.Mul(&p.inner.Y, &zi)
		q.inner.Z.SetOne()
	}
	pb, qb := p.Bytes(), q.Bytes()
	vNote("pbytes", pb)
	vNote("qbytes", qb)
	vNote("eq_pq", p.Equal(&q))
	vNote("eq_qp", q.Equal(&p))
	vNote("eq_pp", p.Equal(&p))
	var zero Element
	vNote("eq_pzero", p.Equal(&zero))
	vNote("eq_zerop", zero.Equal(&p))
	vNote("eq_zerozero", zero.Equal(&zero))
	var mp, mq fr.Element
	p.MapToScalarField(&mp)
	q.MapToScalarField(&mq)
	vNote("map_p", mp)
	vNote("map_q", mq)
	pu, qu := p.BytesUncompressedTrusted(), q.BytesUncompressedTrusted()
	var back Element
	err := back.SetBytesUncompressed(pu[:], true)
	vNote("unc_err", err != nil)
	vNote("unc_equal", back.Equal(&p))
	_ = qu
	if !vSymbolic() {
		vAssert(pb == qb, "Bytes is representation independent")
		vAssert(p.Equal(&q) && q.Equal(&p) && p.Equal(&p), "Equal holds across representations, reflexive and symmetric")
		vAssert(!p.Equal(&zero) && !zero.Equal(&p) && !zero.Equal(&zero), "Equal is never true when one side is the all-zero value")
		vAssert(mp.Equal(&mq), "MapToScalarField is representation independent")
		var ratio fp.Element
		ratio.Div(&p.inner.X, &p.inner.Y)
		rb := ratio.Bytes()
		bi := new(big.Int).SetBytes(rb[:])
		bi.Mod(bi, fr.Modulus())
		var want fr.Element
		want.SetBigInt(bi)
		vAssert(mp.Equal(&want), "MapToScalarField is the integer x/y (base field) reduced modulo r")
		vAssert(err == nil && back.Equal(&p), "uncompressed trusted round trip gives an Equal element")
		var dec Element
		derr := dec.SetBytes(pb[:])
		vAssert(derr == nil && dec.Equal(&p), "decoding Bytes() succeeds and gives an Equal element")
	}
	vReach("end")
}

var _ = bandersnatch.Identity
