package banderwagon

import (
	"math/big"

	basefield "github.com/consensys/gnark-crypto/ecc/bls12-381/fr"
	"github.com/crate-crypto/go-ipa/bandersnatch"
	"github.com/crate-crypto/go-ipa/bandersnatch/fp"
)

// VerifC06Compressed: SetBytes on an arbitrary byte string of length n.
func VerifC06Compressed() {
	n := vParamInt("n")
	var buf []byte
	if !vSymbolic() && vParamInt("search") == 1 {
		buf = c06nonSubgroup(false)
	} else {
		buf = vBytes("b", n)
	}
	vProtect(buf, "input bytes of SetBytes")
	p := c07base(0)
	err := p.SetBytes(buf)
	if !vSymbolic() && vParamInt("search") == 1 {
		vAssert(err != nil, "a curve point outside the prime-order subgroup is rejected (compressed)")
	}
	vNote("ok", err == nil)
	if err == nil {
		vNote("bytes", p.Bytes())
		vNote("coords", p.inner)
	}
	if !vSymbolic() && err == nil {
		out := p.Bytes()
		vAssert(n == 32 && string(out[:]) == string(buf), "accepted compressed input re-encodes to the same bytes")
		vAssert(p.IsOnCurve(), "decoded point is on the curve")
	}
	vReach("end")
}

// VerifC06Uncompressed: SetBytesUncompressed(buf, trusted=false) on an arbitrary byte string of length n.
func VerifC06Uncompressed() {
	n := vParamInt("n")
	var buf []byte
	if !vSymbolic() && vParamInt("alias") == 1 {
		// a concrete non-canonical x coordinate: x + p for the generator (fits 256 bits), with its correct y
		buf = c06aliasOfGenerator()
	} else if !vSymbolic() && vParamInt("search") == 1 {
		buf = c06nonSubgroup(true)
	} else {
		buf = vBytes("b", n)
	}
	vProtect(buf, "input bytes of SetBytesUncompressed")
	p := c07base(0)
	err := p.SetBytesUncompressed(buf, false)
	if !vSymbolic() && vParamInt("search") == 1 {
		vAssert(err != nil, "a curve point outside the prime-order subgroup is rejected (uncompressed)")
	}
	vNote("ok", err == nil)
	if err == nil {
		vNote("bytes", p.BytesUncompressedTrusted())
	}
	if !vSymbolic() && err == nil {
		out := p.BytesUncompressedTrusted()
		vAssert(len(buf) == 64 && string(out[:]) == string(buf), "accepted uncompressed input re-encodes to the same bytes (no second encoding of one element)")
	}
	vReach("end")
}

func c06aliasOfGenerator() []byte {
	g := Generator
	xy := g.BytesUncompressedTrusted()
	x := new(big.Int).SetBytes(xy[:32])
	x.Add(x, basefield.Modulus())
	out := make([]byte, 64)
	xb := x.Bytes()
	copy(out[32-len(xb):32], xb)
	// y must be the lexicographically largest root as the decoder recomputes it
	var gx fp.Element
	gx.SetBytes(xy[:32])
	pt := bandersnatch.GetPointFromX(&gx, true)
	yb := pt.Y.Bytes()
	copy(out[32:], yb[:])
	return out
}

// c06nonSubgroup: encoding of a curve point (x, y) with y the lexicographically largest root whose x fails the
// Banderwagon subgroup test (1 - a x^2 not a non-zero square); found by trying x = 1, 2, 3, ...
func c06nonSubgroup(uncompressed bool) []byte {
	for k := uint64(1); k < 10000; k++ {
		var x fp.Element
		x.SetUint64(k)
		pt := bandersnatch.GetPointFromX(&x, true)
		if pt == nil {
			continue
		}
		var t, one fp.Element
		one.SetOne()
		t.Square(&x).Mul(&t, &bandersnatch.CurveParams.A)
		t.Sub(&one, &t)
		if t.Legendre() == 1 {
			continue
		}
		xb := x.Bytes()
		if !uncompressed {
			return append([]byte{}, xb[:]...)
		}
		yb := pt.Y.Bytes()
		return append(append([]byte{}, xb[:]...), yb[:]...)
	}
	panic("no point outside the subgroup found")
}
