package ipa

import (
	"github.com/crate-crypto/go-ipa/bandersnatch/fr"
	"github.com/crate-crypto/go-ipa/common"
)

// VerifC03IPAProver: CreateIPAProof on an arbitrary polynomial / commitment / evaluation point.
// Symbolically every L_k, R_k, the transcript schedule and the final scalar are compared with the specification's prover;
// natively the proof must verify.
func VerifC03IPAProver() {
	conf := c04config()
	a := make([]fr.Element, common.VectorLength)
	for i := range a {
		a[i] = c02fr("p")
	}
	z := c02fr("z")
	vProtect(a, "polynomial given to CreateIPAProof")
	var C = conf.Commit(a)
	if vSymbolic() {
		C = c02point("C")
	}
	tr := common.NewTranscript("ipa-test")
	proof, err := CreateIPAProof(tr, conf, C, a, z)
	vNote("err", err != nil)
	vNote("nL", len(proof.L))
	vNote("nR", len(proof.R))
	vNote("proof", proof)
	if !vSymbolic() && err == nil {
		b := computeBVector(conf, z)
		y, _ := InnerProd(a, b)
		tv := common.NewTranscript("ipa-test")
		ok, verr := CheckIPAProof(tv, conf, C, proof, z, y)
		vAssert(verr == nil && ok, "honest IPA proof verifies")
	}
	vReach("end")
}
