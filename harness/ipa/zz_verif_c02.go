package ipa

import (
	"github.com/crate-crypto/go-ipa/bandersnatch/fr"
	"github.com/crate-crypto/go-ipa/banderwagon"
	"github.com/crate-crypto/go-ipa/common"
)

func c02fr(name string) fr.Element {
	var e fr.Element
	v := vBigString(name)
	if v == "0" {
		e.SetUint64(uint64(len(name))*1000003 + 17)
		return e
	}
	e.SetString(v)
	return e
}

func c02point(name string) banderwagon.Element {
	s := c02fr(name + "-dlog")
	var p banderwagon.Element
	p.ScalarMul(&banderwagon.Generator, &s)
	return p
}

// VerifC02IPAVerifier: CheckIPAProof on a proof object with nl L-points and nr R-points.
// Symbolically every component is an independent symbol and the two sides of the final group equation are compared with
// the protocol's equation; natively an honest proof (nl = nr = 8) must verify and a wrong-shaped one must give an error.
func VerifC02IPAVerifier() {
	nl, nr := vParamInt("nl"), vParamInt("nr")
	conf := c04config()
	var proof IPAProof
	var C banderwagon.Element
	var z, y fr.Element
	if vSymbolic() || nl != 8 || nr != 8 {
		for i := 0; i < nl; i++ {
			proof.L = append(proof.L, c02point("L"))
		}
		for i := 0; i < nr; i++ {
			proof.R = append(proof.R, c02point("R"))
		}
		proof.A_scalar = c02fr("a")
		C = c02point("C")
		z = c02fr("z")
		y = c02fr("y")
	} else {
		// honest instance
		poly := make([]fr.Element, common.VectorLength)
		for i := range poly {
			poly[i] = c02fr("p")
		}
		C = conf.Commit(poly)
		z = c02fr("z")
		tp := common.NewTranscript("ipa-test")
		p, err := CreateIPAProof(tp, conf, C, poly, z)
		if err != nil {
			panic(err)
		}
		proof = p
		b := computeBVector(conf, z)
		y, _ = InnerProd(poly, b)
	}
	tr := common.NewTranscript("ipa-test")
	ok, err := CheckIPAProof(tr, conf, C, proof, z, y)
	vNote("ok", ok)
	vNote("err", err != nil)
	if !vSymbolic() {
		if nl == 8 && nr == 8 {
			vAssert(err == nil && ok, "honest IPA proof verifies")
			var one fr.Element
			one.SetOne()
			y2 := y
			y2.Add(&y2, &one)
			tr2 := common.NewTranscript("ipa-test")
			ok2, _ := CheckIPAProof(tr2, conf, C, proof, z, y2)
			vAssert(!ok2, "a different claimed value is rejected")
		} else {
			vAssert(err != nil && !ok, "wrong-shaped proof gives an error and false")
		}
	}
	vReach("end")
}
