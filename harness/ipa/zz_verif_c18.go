package ipa

import "github.com/crate-crypto/go-ipa/bandersnatch/fr"

// c18weights: natively the real tables; symbolically the executor supplies tables by their defining formulas
// (rational constants), the construction itself being the separate VerifC18Tables group.
func c18weights() *PrecomputedWeights { return NewPrecomputedWeights() }

// c18fr: a field element given by the replay file (natively) / a fresh field symbol (symbolically).
func c18fr(name string) fr.Element {
	var e fr.Element
	e.SetString(vBigString(name))
	return e
}

func c18poly(name string) []fr.Element {
	f := make([]fr.Element, domainSize)
	for i := range f {
		f[i] = c18fr(name)
	}
	return f
}

func c18int(v int) fr.Element {
	var e fr.Element
	if v >= 0 {
		e.SetUint64(uint64(v))
	} else {
		e.SetUint64(uint64(-v))
		e.Neg(&e)
	}
	return e
}

// VerifC18Divide: DivideOnDomain(k, f) for a fixed index k and an arbitrary polynomial f.
func VerifC18Divide() {
	k := vParamInt("k")
	pw := c18weights()
	f := c18poly("f")
	vProtect(f, "polynomial given to DivideOnDomain")
	q := pw.DivideOnDomain(uint8(k), f)
	vNote("q", q)
	if !vSymbolic() {
		// reference: q_i = (f_i-f_k)/(i-k); q_k = value at k of the degree<255 interpolant through the other 255 points
		ref := make([]fr.Element, domainSize)
		for i := 0; i < domainSize; i++ {
			if i == k {
				continue
			}
			var d fr.Element
			d = c18int(i - k)
			ref[i].Sub(&f[i], &f[k])
			ref[i].Div(&ref[i], &d)
		}
		for i := 0; i < domainSize; i++ {
			if i == k {
				continue
			}
			w := fr.One()
			for m := 0; m < domainSize; m++ {
				if m == i || m == k {
					continue
				}
				n, d := c18int(k-m), c18int(i-m)
				n.Div(&n, &d)
				w.Mul(&w, &n)
			}
			w.Mul(&w, &ref[i])
			ref[k].Add(&ref[k], &w)
		}
		ok := len(q) == domainSize
		for i := 0; ok && i < domainSize; i++ {
			ok = q[i].Equal(&ref[i])
		}
		vAssert(ok, "DivideOnDomain equals the evaluation form of (p(X)-p(k))/(X-k)")
	}
	vReach("end")
}

// VerifC18Coeffs: ComputeBarycentricCoefficients(z) for a point outside the domain.
func VerifC18Coeffs() {
	pw := c18weights()
	z := c18fr("z")
	co := pw.ComputeBarycentricCoefficients(z)
	vNote("coeffs", co)
	if !vSymbolic() {
		ok := len(co) == domainSize
		for i := 0; ok && i < domainSize; i++ {
			l := fr.One()
			for j := 0; j < domainSize; j++ {
				if j == i {
					continue
				}
				zj := c18int(j)
				var n fr.Element
				n.Sub(&z, &zj)
				d := c18int(i - j)
				n.Div(&n, &d)
				l.Mul(&l, &n)
			}
			ok = co[i].Equal(&l)
		}
		vAssert(ok, "barycentric coefficients equal the Lagrange basis values L_i(z)")
	}
	vReach("end")
}

// VerifC18Tables: construction of the weight tables (closed computation through the encoder, residues mod r).
func VerifC18Tables() {
	pw := NewPrecomputedWeights()
	vNote("weights", pw.barycentricWeights)
	vNote("inverted", pw.invertedDomain)
	vReach("end")
}
