package ipa

import (
	"math/big"

	"github.com/crate-crypto/go-ipa/bandersnatch/fr"
)

var c04conf *IPAConfig

// c04config: natively the real configuration; symbolically only PrecomputedWeights is dereferenced (stubbed).
func c04config() *IPAConfig {
	if c04conf == nil {
		c, err := NewIPASettings()
		if err != nil {
			panic(err)
		}
		c04conf = c
	}
	return c04conf
}

// c04lagrange: naive Lagrange basis values L_i(z) over the domain 0..255 (reference, native side).
func c04lagrange(z fr.Element) []fr.Element {
	out := make([]fr.Element, domainSize)
	for i := 0; i < domainSize; i++ {
		l := fr.One()
		for j := 0; j < domainSize; j++ {
			if j == i {
				continue
			}
			zj := c18int(j)
			var n fr.Element
			n.Sub(&z, &zj)
			d := c18int(i - j)
			n.Div(&n, &d)
			l.Mul(&l, &n)
		}
		out[i] = l
	}
	return out
}

// VerifC04BVector: computeBVector for every field element: unit vector exactly for points 0..255,
// barycentric coefficients otherwise.
func VerifC04BVector() {
	z := fr.Element{vU64("z0"), vU64("z1"), vU64("z2"), vU64("z3")}
	ic := c04config()
	b := computeBVector(ic, z)
	vNote("b", b)
	if !vSymbolic() {
		var bi big.Int
		z.ToBigIntRegular(&bi)
		ok := len(b) == domainSize
		if ok && bi.Cmp(big.NewInt(256)) < 0 {
			for i := 0; i < domainSize; i++ {
				want := fr.Zero()
				if int64(i) == bi.Int64() {
					want = fr.One()
				}
				ok = ok && b[i].Equal(&want)
			}
		} else if ok {
			ref := c04lagrange(z)
			for i := 0; i < domainSize; i++ {
				ok = ok && b[i].Equal(&ref[i])
			}
		}
		vAssert(ok, "b vector is the unit vector for in-domain points and the Lagrange basis values otherwise")
	}
	vReach("end")
}
