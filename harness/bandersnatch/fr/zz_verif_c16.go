package fr

import "math/big"

// C16 harnesses: scalar encodings. Specifications are stated in /verif/checks/c16.py over the notes.
// The receiver starts with arbitrary content (junk) so that stale limbs would be observable.

func VerifC16SetBytes() {
	b := vBytes("b", vParamInt("n"))
	vProtect(b, "input byte slice of SetBytes")
	z := c15elem("junk")
	z.SetBytes(b)
	vNote("z", z)
	vReach("end")
}

func VerifC16SetBytesLE() {
	b := vBytes("b", vParamInt("n"))
	vProtect(b, "input byte slice of SetBytesLE")
	z := c15elem("junk")
	z.SetBytesLE(b)
	vNote("z", z)
	vReach("end")
}

func VerifC16SetBytesLECanonical() {
	b := vBytes("b", vParamInt("n"))
	vProtect(b, "input byte slice of SetBytesLECanonical")
	z := c15elem("junk")
	r, err := z.SetBytesLECanonical(b)
	if !vSymbolic() {
		// pool protocol, observable natively: an object put back twice is handed out twice
		p1 := bigIntPool.Get().(*big.Int)
		p2 := bigIntPool.Get().(*big.Int)
		vAssert(p1 != p2, "sync.Pool protocol: the same object is put back twice (shared between two later Get calls)")
	}
	vNote("ok", err == nil)
	vNote("retnil", r == nil)
	vNote("z", z)
	vReach("end")
}

// SetBigInt on a caller-owned integer: the result is the reduced value and the caller's integer is left as it was.
func VerifC16SetBigInt() {
	n := vParamInt("n")
	b := vBytes("b", n)
	var v, keep big.Int
	v.SetBytes(b)
	keep.Set(&v)
	z := c15elem("junk")
	z.SetBigInt(&v)
	vAssert(v.Cmp(&keep) == 0, "SetBigInt leaves the caller's big.Int unchanged (input purity)")
	vNote("z", z)
	vReach("end")
}

func VerifC16RoundTripBE() {
	s := c15elem("x")
	b := s.Bytes()
	z := c15elem("junk")
	z.SetBytes(b[:])
	vNote("z", z)
	vNote("b", b)
	vReach("end")
}

func VerifC16RoundTripLE() {
	s := c15elem("x")
	b := s.BytesLE()
	z := c15elem("junk")
	z.SetBytesLE(b[:])
	vNote("z", z)
	vNote("b", b)
	vReach("end")
}

func VerifC16BytesLayout() {
	s := c15elem("x")
	be := s.Bytes()
	le := s.BytesLE()
	r := s.ToRegular()
	vNote("be", be)
	vNote("le", le)
	vNote("r", r)
	var bi big.Int
	s.ToBigIntRegular(&bi)
	var z Element
	z.SetBigInt(&bi)
	vNote("z", z)
	vReach("end")
}
