package fr

// C15 harnesses: limb-level arithmetic of the scalar field. The specification (integer arithmetic
// modulo r on the 256-bit values) is stated by /verif/checks/c15.py over the noted inputs/outputs;
// natively the same harness prints the outputs and the check re-evaluates the specification.

func c15elem(name string) Element {
	return Element{vU64(name + "0"), vU64(name + "1"), vU64(name + "2"), vU64(name + "3")}
}

// c15call3 runs f(z, x, y) under the aliasing pattern `alias`:
// 0: all distinct, 1: z==x, 2: z==y, 3: x==y (value x), 4: z==x==y
func c15call3(f func(z, x, y *Element), alias int, x, y Element) Element {
	var z Element
	switch alias {
	case 0:
		f(&z, &x, &y)
		return z
	case 1:
		f(&x, &x, &y)
		return x
	case 2:
		f(&y, &x, &y)
		return y
	case 3:
		f(&z, &x, &x)
		return z
	default:
		f(&x, &x, &x)
		return x
	}
}

func c15call2(f func(z, x *Element), alias int, x Element) Element {
	var z Element
	if alias == 0 {
		f(&z, &x)
		return z
	}
	f(&x, &x)
	return x
}

func VerifC15Add() {
	x, y := c15elem("x"), c15elem("y")
	vNote("z", c15call3(_addGeneric, vParamInt("alias"), x, y))
	vReach("end")
}

func VerifC15Sub() {
	x, y := c15elem("x"), c15elem("y")
	vNote("z", c15call3(_subGeneric, vParamInt("alias"), x, y))
	vReach("end")
}

func VerifC15Double() {
	x := c15elem("x")
	vNote("z", c15call2(_doubleGeneric, vParamInt("alias"), x))
	vReach("end")
}

func VerifC15Neg() {
	x := c15elem("x")
	vNote("z", c15call2(_negGeneric, vParamInt("alias"), x))
	vReach("end")
}

func VerifC15Reduce() {
	x := c15elem("x")
	_reduceGeneric(&x)
	vNote("z", x)
	vReach("end")
}

func VerifC15Butterfly() {
	a, b := c15elem("x"), c15elem("y")
	if vParamInt("alias") == 0 {
		_butterflyGeneric(&a, &b)
		vNote("z", a)
		vNote("w", b)
	} else {
		_butterflyGeneric(&a, &a)
		vNote("z", a)
		vNote("w", a)
	}
	vReach("end")
}

func VerifC15MulByConstant() {
	x := c15elem("x")
	mulByConstant(&x, uint8(vParamInt("c")))
	vNote("z", x)
	vReach("end")
}

func VerifC15Mul() {
	x, y := c15elem("x"), c15elem("y")
	vNote("z", c15call3(_mulGeneric, vParamInt("alias"), x, y))
	vReach("end")
}

// Inverse (binary extended Euclid on Montgomery representation): decided by a loop invariant at the two loop heads
// (checks/c15inv.py); natively the result is judged against R^2 * x^-1 mod r.
func VerifC15Inverse() {
	x := c15elem("x")
	var z Element
	if vParamInt("alias") == 1 {
		z = x
		z.Inverse(&z)
	} else {
		z.Inverse(&x)
	}
	vNote("z", z)
	vReach("end")
}

func VerifC15FromMont() {
	x := c15elem("x")
	_fromMontGeneric(&x)
	vNote("z", x)
	vReach("end")
}

// public API through the dispatch layer (Add/Sub/... call the assembly-backed add/sub/...; the
// executor routes those to the portable twins or to the assembly interpreter, see checks/c15.py)
func VerifC15API() {
	x, y := c15elem("x"), c15elem("y")
	var z Element
	switch vParamInt("op") {
	case 0:
		z.Add(&x, &y)
	case 1:
		z.Sub(&x, &y)
	case 2:
		z.Neg(&x)
	case 3:
		z.Double(&x)
	}
	vNote("z", z)
	vReach("end")
}

func VerifC15Cmp() {
	x, y := c15elem("x"), c15elem("y")
	vNote("cmp", x.Cmp(&y))
	vNote("eq", x.Equal(&y))
	vNote("zero", x.IsZero())
	vNote("lexl", x.LexicographicallyLargest())
	xr, yr := x, y
	xr.FromMont()
	yr.FromMont()
	vNote("xr", xr)
	vNote("yr", yr)
	vReach("end")
}

func VerifC15SetUint64() {
	v := vU64("v")
	var z Element
	z.SetUint64(v)
	vNote("z", z)
	z.FromMont()
	vNote("zr", z)
	vReach("end")
}

func VerifC15Bits() {
	x := c15elem("x")
	i := vU64("i")
	vNote("bit", x.Bit(i))
	vNote("bitlen", x.BitLen())
	vReach("end")
}

// VerifC15MulAsm: natively Element.Mul / FromMont dispatch to the assembly routines; used to replay counterexamples found
// by interpreting the .s files (symbolically this harness is not executed).
func VerifC15MulAsm() {
	x, y := c15elem("x"), c15elem("y")
	var z Element
	z.Mul(&x, &y)
	vNote("z", z)
	f := x
	f.FromMont()
	vNote("fm", f)
	vReach("end")
}

// c15sym: a field symbol (symbolic run) / value from the replay file; kind parameters may force the literal zero.
func c15sym(name string) Element {
	var e Element
	e.SetString(vBigString(name))
	return e
}

// VerifC15BatchInvert: Montgomery batch inversion for every zero pattern of n inputs.
func VerifC15BatchInvert() {
	n := vParamInt("n")
	mask := vParamInt("zeromask")
	a := make([]Element, n)
	for i := range a {
		if mask>>uint(i)&1 == 0 {
			a[i] = c15sym("a")
			if !vSymbolic() && a[i].IsZero() {
				a[i].SetUint64(uint64(i) + 2)
			}
		}
	}
	vProtect(a, "input of BatchInvert")
	res := BatchInvert(a)
	vNote("len", len(res))
	vNote("res", res)
	if !vSymbolic() {
		ok := len(res) == n
		for i := 0; ok && i < n; i++ {
			if a[i].IsZero() {
				ok = res[i].IsZero()
			} else {
				var p Element
				p.Mul(&res[i], &a[i])
				one := One()
				ok = p.Equal(&one)
			}
		}
		vAssert(ok, "BatchInvert: res[i]*a[i] = 1 for non-zero inputs and 0 for zero inputs")
	}
	vReach("end")
}
