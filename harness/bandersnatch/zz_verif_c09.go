package bandersnatch

import (
	"math/big"

	"github.com/crate-crypto/go-ipa/bandersnatch/fp"
	"github.com/crate-crypto/go-ipa/bandersnatch/fr"
)

// c09point returns the i-th test point: natively a multiple of the curve base point, symbolically the
// executor replaces the body by the generator symbol kappa_i.
func c09point(i int) PointAffine {
	var p PointProj
	p.X, p.Y, p.Z = CurveParams.Base.X, CurveParams.Base.Y, fp.One()
	q := p
	for k := 0; k < i; k++ {
		q.Double(&q)
		q.Add(&q, &p)
	}
	var a PointAffine
	a.FromProj(&q)
	return a
}

func c09scalar(name string) fr.Element {
	return fr.Element{vU64(name + "0"), vU64(name + "1"), vU64(name + "2"), vU64(name + "3")}
}

// c09ref: naive sum of s_i * P_i (regular-form scalars), native side only.
func c09ref(points []PointAffine, scalars []fr.Element) PointProj {
	acc := Identity
	for i := range points {
		var pj, t PointProj
		pj.FromAffine(&points[i])
		t = Identity
		for b := 255; b >= 0; b-- {
			t.Double(&t)
			if scalars[i].Bit(uint64(b)) == 1 {
				t.Add(&t, &pj)
			}
		}
		acc.Add(&acc, &t)
	}
	return acc
}

// c09refDigits: reference for already partitioned scalars: decode every c-bit window as the signed digit it encodes.
func c09refDigits(points []PointAffine, words []fr.Element, c int) PointProj {
	acc := Identity
	nb := 256 / c
	if 256%c != 0 {
		nb++
	}
	msb := uint64(1) << uint(c-1)
	for i := range points {
		var pj PointProj
		pj.FromAffine(&points[i])
		for k := nb - 1; k >= 0; k-- {
			var bits uint64
			for b := 0; b < c; b++ {
				pos := uint64(k*c + b)
				if pos < 256 {
					bits |= words[i].Bit(pos) << uint(b)
				}
			}
			var d int64
			if bits&msb == 0 {
				d = int64(bits)
			} else {
				d = -int64((bits&^msb)+1)
			}
			neg := d < 0
			if neg {
				d = -d
			}
			t := Identity
			for b := 62; b >= 0; b-- {
				t.Double(&t)
				if (uint64(d)>>uint(b))&1 == 1 {
					t.Add(&t, &pj)
				}
			}
			for b := 0; b < k*c; b++ {
				t.Double(&t)
			}
			if neg {
				t.Neg(&t)
			}
			acc.Add(&acc, &t)
		}
	}
	return acc
}

func c09same(a, b *PointProj) bool {
	var x, y PointAffine
	x.FromProj(a)
	y.FromProj(b)
	return x.X.Equal(&y.X) && x.Y.Equal(&y.Y)
}

// VerifC09Chunk: digit partition + processing of one chunk, one point, window width c.
// Symbolically: result must be (closed-form signed digit of chunk j) * kappa_0.
func VerifC09Chunk() {
	c := uint64(vParamInt("c"))
	j := uint64(vParamInt("chunk"))
	nb := vParamInt("buckets")
	s := c09scalar("s")
	points := []PointAffine{c09point(0)}
	ps, small := partitionScalars([]fr.Element{s}, c, false, 1)
	vNote("small", small)
	if !vSymbolic() {
		// native reference: the signed digits encoded in the partitioned words sum up to the scalar
		nb := 256 / int(c)
		if 256%int(c) != 0 {
			nb++
		}
		msb := uint64(1) << (c - 1)
		sum := new(big.Int)
		for k := nb - 1; k >= 0; k-- {
			var bits uint64
			for b := 0; b < int(c); b++ {
				pos := uint64(k*int(c) + b)
				if pos < 256 {
					bits |= ps[0].Bit(pos) << uint(b)
				}
			}
			d := new(big.Int)
			if bits&msb == 0 {
				d.SetUint64(bits)
			} else {
				d.SetUint64((bits &^ msb) + 1)
				d.Neg(d)
			}
			sum.Lsh(sum, uint(c))
			sum.Add(sum, d)
		}
		var sb big.Int
		sv := s
		b32 := make([]byte, 32)
		for i := 0; i < 4; i++ {
			for j := 0; j < 8; j++ {
				b32[31-(8*i+j)] = byte(sv[i] >> uint(8*j))
			}
		}
		sb.SetBytes(b32)
		vAssert(sum.Cmp(&sb) == 0, "the signed digits of the partitioned scalar sum up to the scalar")
	}
	buckets := make([]PointProj, nb)
	var res PointProj
	msmProcessChunkPointAffineDMA(j, &res, buckets, c, points, ps)
	vNote("res", res)
	vReach("end")
}

// VerifC09Inner: orchestration of msmC<c> (goroutines, channels, first-chunk split, reduction) for n points.
func VerifC09Inner() {
	c := vParamInt("c")
	n := vParamInt("n")
	split := vParamInt("split") == 1
	points := make([]PointAffine, n)
	scalars := make([]fr.Element, n)
	for i := 0; i < n; i++ {
		points[i] = c09point(i)
		scalars[i] = c09scalar("s")
	}
	// the scalars are taken as already partitioned digit words (every 256-bit pattern is a valid encoding);
	// that partitionScalars produces the right digit words is the separate VerifC09Chunk obligation group
	var p PointProj
	msmInnerPointProj(&p, c, points, scalars, split)
	vNote("res", p)
	if !vSymbolic() {
		ref := c09refDigits(points, scalars, c)
		vAssert(c09same(&p, &ref), "msmInnerPointProj equals sum_i sum_k digit_k(x_i) 2^(ck) P_i")
	}
	vReach("end")
}

// VerifC09MultiExp: top-level MultiExp (window choice, recursive splitting, fan-in) for n points.
func VerifC09MultiExp() {
	n := vParamInt("n")
	m := vParamInt("nscalars")
	tasks := vParamInt("tasks")
	mont := vParamInt("mont") == 1
	points := make([]PointAffine, n)
	scalars := make([]fr.Element, m)
	for i := 0; i < n; i++ {
		points[i] = c09point(i)
	}
	for i := 0; i < m; i++ {
		scalars[i] = c09scalar("s")
	}
	vProtect(scalars, "scalars given to MultiExp")
	var p PointProj
	r, err := MultiExp(&p, points, scalars, MultiExpConfig{NbTasks: tasks, ScalarsMont: mont})
	vNote("err", err != nil)
	vNote("retnil", r == nil)
	vNote("res", p)
	if !vSymbolic() && err == nil {
		reg := make([]fr.Element, m)
		for i := range scalars {
			reg[i] = scalars[i]
			if mont {
				reg[i].FromMont()
			}
		}
		ref := c09ref(points, reg)
		vAssert(c09same(&p, &ref), "MultiExp equals sum s_i*P_i")
	}
	vReach("end")
}

// VerifC09PartitionMany: fan-out of partitionScalars over several scalars with a task limit below the CPU count:
// the per-task counts must all be collected without blocking.
func VerifC09PartitionMany() {
	n := vParamInt("n")
	tasks := vParamInt("tasks")
	c := uint64(vParamInt("c"))
	scalars := make([]fr.Element, n)
	for i := 0; i < n; i++ {
		scalars[i] = fr.Element{vU64("s0")}
	}
	vProtect(scalars, "scalars given to partitionScalars")
	ps, small := partitionScalars(scalars, c, false, tasks)
	vNote("len", len(ps))
	vNote("small", small)
	vReach("end")
}
