package bandersnatch

import "github.com/crate-crypto/go-ipa/bandersnatch/fp"

func c05fp(name string) fp.Element {
	var e fp.Element
	e.SetString(vBigString(name))
	return e
}

// VerifC05Formulas: ExtendedAddNormalized / PointExtendedFromProj / PointExtendedNormalized.Neg against the twisted
// Edwards addition law (a = -5). Inputs are parametrised so that the extended-coordinate invariant T = XY/Z holds by
// construction: p1 = (x1*Z1, y1*Z1, Z1, x1*y1*Z1), p2 = (x2, y2, x2*y2).
func VerifC05Formulas() {
	x1, y1, z1 := c05fp("x1"), c05fp("y1"), c05fp("z1")
	x2, y2 := c05fp("x2"), c05fp("y2")
	var proj PointProj
	proj.X.Mul(&x1, &z1)
	proj.Y.Mul(&y1, &z1)
	proj.Z = z1
	p1 := PointExtendedFromProj(&proj)
	var p2 PointExtendedNormalized
	p2.X, p2.Y = x2, y2
	p2.T.Mul(&x2, &y2)
	var sum PointExtended
	ExtendedAddNormalized(&sum, &p1, &p2)
	var neg PointExtendedNormalized
	neg.Neg(&p2)
	vNote("p1", p1)
	vNote("sum", sum)
	vNote("neg", neg)
	vNote("ident", IdentityExt)
	vReach("end")
}
