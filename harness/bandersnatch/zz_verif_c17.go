package bandersnatch

import "github.com/crate-crypto/go-ipa/bandersnatch/fp"

func c17x(name string) fp.Element {
	var e fp.Element
	e.SetString(vBigString(name))
	return e
}

// VerifC17PointFromX: GetPointFromX / computeY: nil exactly when the right-hand side has no root, otherwise (x, y)
// with y the requested root.
func VerifC17PointFromX() {
	x := c17x("x")
	xin := x
	largest := vParamInt("largest") == 1
	p := GetPointFromX(&x, largest)
	vNote("isnil", p == nil)
	if p != nil {
		vNote("px", p.X)
		vNote("py", p.Y)
		vNote("lexl", p.Y.LexicographicallyLargest())
	}
	vNote("x", x)
	if !vSymbolic() {
		vAssert(x.Equal(&xin), "GetPointFromX does not modify x")
		if p != nil {
			vAssert(p.IsOnCurve(), "returned point is on the curve")
			vAssert(p.X.Equal(&xin), "returned point has the given x")
			var zero fp.Element
			if !p.Y.Equal(&zero) {
				vAssert(p.Y.LexicographicallyLargest() == largest, "y is the requested root")
			}
		}
	}
	vReach("end")
}
