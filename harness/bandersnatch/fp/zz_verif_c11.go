package fp

// VerifC11BytesLE: fp.BytesLE is the 32-byte little-endian encoding of the regular value, for every base-field element.
func VerifC11BytesLE() {
	a := Element{vU64("a0"), vU64("a1"), vU64("a2"), vU64("a3")}
	b := BytesLE(a)
	vNote("len", len(b))
	vNote("b", b)
	vNote("a_after", a)
	vReach("end")
}
