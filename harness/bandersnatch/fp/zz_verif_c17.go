package fp

import "math/big"

// c17root: the element g^e of the 2^32 subgroup (g = fixed primitive 2^32-th root of unity).
// Symbolically replaced by the exponent-domain value e.
func c17root(name string) Element {
	e := vU64(name)
	var r Element
	r.Exp(sqrtPrecomp_PrimitiveDyadicRoots[0], new(big.Int).SetUint64(e&0xFFFFFFFF))
	return r
}

// c17x: an arbitrary base-field element (natively from the replay file).
func c17x(name string) Element {
	var e Element
	e.SetString(vBigString(name))
	return e
}

// VerifC17Dyadic: invSqrtEqDyadic on g^e for every 32-bit exponent e.
func VerifC17Dyadic() {
	z := c17root("e")
	zin := z
	ok := invSqrtEqDyadic(&z)
	vNote("ok", ok)
	vNote("w", z)
	if !vSymbolic() {
		e := vU64("echeck")
		_ = e
		if ok {
			var t Element
			t.Square(&z).Mul(&t, &zin)
			vAssert(t.IsOne(), "w^2 * z = 1")
		}
	}
	vReach("end")
}

// VerifC17Powers: the addition chain of sqrtAlg_ComputeRelevantPowers (power domain: exponents of the input).
func VerifC17Powers() {
	z := c17x("x")
	var cand, root Element
	sqrtAlg_ComputeRelevantPowers(&z, &cand, &root)
	vNote("z", z)
	vNote("cand", cand)
	vNote("root", root)
	vReach("end")
}

// VerifC17Sqrt: glue of SqrtPrecomp.
func VerifC17Sqrt() {
	x := c17x("x")
	xin := x
	r := SqrtPrecomp(&x)
	vNote("isnil", r == nil)
	if r != nil {
		vNote("r", *r)
	}
	vNote("x", x)
	if !vSymbolic() {
		vAssert(x.Equal(&xin), "SqrtPrecomp does not modify its argument")
		if r != nil {
			var t Element
			t.Square(r)
			vAssert(t.Equal(&xin), "returned root squares to the argument")
		} else {
			vAssert(xin.Legendre() == -1, "nil only for non-residues")
		}
	}
	vReach("end")
}
