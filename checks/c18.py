"""C18 - barycentric evaluation and in-domain division are exact polynomial operations."""
import json
from fractions import Fraction
import z3
from gosmt import driver as D
from gosmt import stdlib, field, polyid
from gosmt.field import FVal
from gosmt.check import Report, std_replay, native_replay, run_jobs, ctx_info, _Info
from gosmt.exec import Obligation
from gosmt.harness import frame_obligations
from gosmt.values import Unsupported, Ptr, Slice, is_term, b_and, b_not, simp_bool
from checks.frlib import FR, Q

IPA = D.MOD + "/ipa"
EL = FR + ".Element"
PROG = None
BUILD = None
N = 256


def ob(label, viol):
    return Obligation(label, viol, "assert")


def aprime(i):
    r = 1
    for m in range(N):
        if m != i:
            r *= (i - m)
    return r


APR = [aprime(i) for i in range(N)]


def rv(fr_):
    return z3.RealVal(str(fr_))


def setup_real(ex):
    stdlib.install(ex)
    dom = field.install_real(ex, types=("repo",))

    def weights(ex_, args, ins):
        w = [FVal(rv(Fraction(APR[i])), dom, "nonzero") for i in range(N)] + [FVal(rv(Fraction(1, APR[i])), dom, "nonzero") for i in range(N)]
        inv = [FVal(rv(Fraction(1, i)), dom, "nonzero") for i in range(1, N)] + [FVal(rv(Fraction(-1, i)), dom, "nonzero") for i in range(1, N)]
        pw = ex_.alloc(EL, label="barycentricWeights (by definition)", cells=w, count=2 * N)
        pi = ex_.alloc(EL, label="invertedDomain (by definition)", cells=inv, count=2 * (N - 1))
        from gosmt.harness import protect_object
        protect_object(ex_, pw, 2 * N, "precomputed barycentric weights")
        protect_object(ex_, pi, 2 * (N - 1), "precomputed inverted domain")
        st = ex_.alloc(IPA + ".PrecomputedWeights", label="PrecomputedWeights", cells=[Slice(pw, 2 * N, 2 * N, EL), Slice(pi, 2 * (N - 1), 2 * (N - 1), EL)])
        return (st,)
    ex.intrinsics[IPA + ".c18weights"] = weights

    def frsym(ex_, args, ins):
        from gosmt.harness import _name
        n = _name(ex_, args[0])
        v = dom.sym("F_" + n.replace("#", "_"))
        ex_.ctx.vars[n] = (v.t, 0, False)
        return (v,)
    ex.intrinsics[IPA + ".c18fr"] = frsym


def load_slice(ex, s):
    from gosmt.values import cases_of, Guarded
    cs = cases_of(s)
    if len(cs) == 1:
        s = cs[0][1]
        return [ex.load(Ptr(s.ptr.obj, s.ptr.off + i, s.ptr.sym), EL) for i in range(s.len)]
    n = cs[0][1].len
    if any(c[1].len != n for c in cs):
        raise Unsupported("result slices of different lengths on different paths")
    out = None
    for g, sl in reversed(cs):
        vals = [ex.load(Ptr(sl.ptr.obj, sl.ptr.off + i, sl.ptr.sym), EL) for i in range(n)]
        out = vals if out is None else [v.dom.ite(g, v, o) for v, o in zip(vals, out)]
    return out


def slice_len(s):
    from gosmt.values import cases_of
    return cases_of(s)[0][1].len


def job_divide(k):
    h = "VerifC18Divide"
    params = {"k": k}
    ctx, ex = D.execute(PROG, IPA + "." + h, intmode="bv", params=params, setup=setup_real, harness_pkgs=[IPA], unwind=100000, prune=False)
    qs = [v for (l, g, v) in ctx.notes if l == "q"][0]
    obs = []
    if slice_len(qs) != N:
        obs.append(ob("quotient has 256 entries", True))
    else:
        q = load_slice(ex, qs)
        f = [ctx.vars["f" if i == 0 else "f#%d" % i][0] for i in range(N)]
        for i in range(N):
            if i == k:
                continue
            obs.append(ob("q[%d]*(%d-k) = f[%d]-f[k]" % (i, i, i), q[i].t * (i - k) != f[i] - f[k]))
        tot = 0
        for i in range(N):
            if i == k:
                continue
            w = Fraction(1)
            for m in range(N):
                if m != i and m != k:
                    w *= Fraction(k - m, i - m)
            tot = tot + rv(w) * q[i].t
        obs.append(ob("q[k] is the value at k of the degree<255 interpolant through the other 255 quotient values", q[k].t != tot))
    obs += frame_obligations(ex)
    recs = D.discharge_all(ctx, extra=obs, timeout_ms=120000)
    info = ctx_info(ctx)
    info["field_ops"] = getattr(ctx, "field_ops", 0)
    return {"group": "DivideOnDomain k=%d" % k, "recs": recs, "info": info, "harness": h, "params": params}


def job_coeffs(part=0, nparts=1):
    h = "VerifC18Coeffs"
    params = {}
    ctx, ex = D.execute(PROG, IPA + "." + h, intmode="bv", params=params, setup=setup_real, harness_pkgs=[IPA], unwind=100000, prune=False)
    cs = [v for (l, g, v) in ctx.notes if l == "coeffs"][0]
    recs = D.discharge_all(ctx, extra=frame_obligations(ex), timeout_ms=60000)
    z = ctx.vars["z"][0]
    if slice_len(cs) != N:
        recs.append({"label": "256 coefficients", "kind": "assert", "status": "sat", "time_s": 0, "pos": "", "ok": False, "verdict": "violated", "model": {}})
    else:
        co = load_slice(ex, cs)
        P = z3.RealVal(1)
        for j in range(N):
            P = P * (z - j)
        pairs = [("coefficient %d = prod_j(z-j) / (A'(%d) (z-%d))" % (i, i, i), co[i].t, P / (rv(Fraction(APR[i])) * (z - i))) for i in range(N)]
        import time
        t0 = time.time()
        B, npts, failures, queries = polyid.univariate_identities(pairs, z, 256, avoid=range(0, 256), part=part, nparts=nparts)
        dt = time.time() - t0
        okall = not failures
        if okall and getattr(ctx, "piecewise", False):
            recs.append({"label": "coefficients are defined piecewise on the integer order of z: identity only checked at the ground instances", "kind": "assert",
                         "status": "unknown:piecewise", "time_s": 0, "pos": "", "ok": False, "verdict": "inconclusive"})
        recs.append({"label": "all 256 coefficient identities as rational functions of z: degree bound %d, ground instances part %d/%d (%d points z=256..)" % (B, part + 1, nparts, npts),
                     "kind": "assert", "status": "unsat" if okall else "sat", "time_s": round(dt, 3), "pos": "", "ok": okall,
                     "verdict": "holds" if okall else "violated", "model": ({"z": str(failures[0][1])} if failures else {}), "ground_queries": queries,
                     "failing": failures[:5]})
        nz = len(ex.ctx.fdom.nonzero_assumptions)
        recs.append({"label": "recorded non-zero assumptions (z outside the domain): %d" % nz, "kind": "assert", "status": "unsat", "time_s": 0, "pos": "",
                     "ok": True, "verdict": "holds", "model": {}})
    info = ctx_info(ctx)
    info["field_ops"] = getattr(ctx, "field_ops", 0)
    return {"group": "ComputeBarycentricCoefficients (points part %d/%d)" % (part + 1, nparts), "recs": recs, "info": info, "harness": h, "params": params}


def setup_mod(ex):
    stdlib.install(ex)
    field.install_mod(ex, Q, types=("repo",))


def job_tables():
    h = "VerifC18Tables"
    ctx, ex = D.execute(PROG, IPA + "." + h, intmode="bv", params={}, setup=setup_mod, harness_pkgs=[IPA], unwind=100000, prune=False)
    w = load_slice(ex, [v for (l, g, v) in ctx.notes if l == "weights"][0])
    inv = load_slice(ex, [v for (l, g, v) in ctx.notes if l == "inverted"][0])
    recs = D.discharge_all(ctx, timeout_ms=60000)

    def rec(label, ok):
        return {"label": label, "kind": "assert", "status": "unsat" if ok else "sat", "time_s": 0, "pos": "", "ok": ok, "verdict": "holds" if ok else "violated", "model": {}}
    recs.append(rec("table sizes 512 and 510", len(w) == 2 * N and len(inv) == 2 * (N - 1)))
    if len(w) == 2 * N and len(inv) == 2 * (N - 1):
        bad_w = [i for i in range(N) if w[i].t != APR[i] % Q]
        bad_wi = [i for i in range(N) if (w[N + i].t * APR[i]) % Q != 1]
        bad_i = [i for i in range(1, N) if (inv[i - 1].t * i) % Q != 1]
        bad_n = [i for i in range(1, N) if (inv[(i - 1) + (N - 1)].t + inv[i - 1].t) % Q != 0]
        recs.append(rec("barycentricWeights[i] = A'(i) mod r for all 256 i (closed computation through the encoder)%s" % (" failing: %s" % bad_w[:5] if bad_w else ""), not bad_w))
        recs.append(rec("barycentricWeights[256+i] * A'(i) = 1 mod r for all i%s" % (" failing: %s" % bad_wi[:5] if bad_wi else ""), not bad_wi))
        recs.append(rec("invertedDomain[i-1] * i = 1 mod r for i=1..255%s" % (" failing: %s" % bad_i[:5] if bad_i else ""), not bad_i))
        recs.append(rec("invertedDomain[254+i] = -invertedDomain[i-1] for i=1..255%s" % (" failing: %s" % bad_n[:5] if bad_n else ""), not bad_n))
    info = ctx_info(ctx)
    info["field_ops"] = getattr(ctx, "field_ops", 0)
    return {"group": "NewPrecomputedWeights tables", "recs": recs, "info": info, "harness": h, "params": {}}


def real_to_mod(v):
    if isinstance(v, str) and "/" in v:
        a, b = v.split("/")
        return int(a) * pow(int(b), -1, Q) % Q
    return int(v) % Q


def run(tier, seed):
    global PROG, BUILD
    rep = Report("C18", tier, seed)
    BUILD = D.Build("c18", [IPA], [IPA + ".VerifC18Divide", IPA + ".VerifC18Coeffs", IPA + ".VerifC18Tables"])
    try:
        PROG = BUILD.load()
    except Exception as e:  # noqa
        rep.inconclusive_group("load", str(e))
        return rep.finish()
    ks = list(range(256)) if tier == "thorough" else sorted(set([0, 1, 2, 127, 128, 200, 201, 254, 255, (seed * 37) % 256]))
    rep.bounds = {"DivideOnDomain": "index k in %s, polynomial f fully symbolic (256 field symbols)" % (ks if len(ks) < 20 else "0..255"),
                  "ComputeBarycentricCoefficients": "z symbolic outside the domain; rational-function identities decided by degree-bound+1 ground instances",
                  "tables": "all 512+510 entries (closed computation modulo r through the encoder)",
                  "outside": "barycentric formula theorem (inner product with L_i(z) is p(z)); z inside the domain (z-i = 0)"}
    rep.assumptions = ["field operations summarised by their C15 contracts; identities over Q[x] with recorded non-zero denominators hold in F_r (table constants have only prime factors < 256, units mod r)",
                       "weight tables given by their defining formulas in the Divide/Coeffs groups; their construction is the tables group"]

    def mkreplay(item):
        inner = std_replay(BUILD, IPA, IPA + "." + item["harness"], item["params"])

        def cb(rec):
            m = {k: (real_to_mod(v) if not isinstance(v, bool) else v) for k, v in (rec.get("model") or {}).items()}
            r2 = dict(rec)
            r2["model"] = m
            return inner(r2)
        return cb

    def on(a, item):
        rep.add(item["group"], item["recs"], _Info(item["info"]), key_prefix=item["harness"], replay=mkreplay(item))
    run_jobs(rep, job_divide, [(k,) for k in ks], name=lambda a: "Divide k=%d" % a, on_result=on)
    run_jobs(rep, job_coeffs, [(i, 16) for i in range(16)], name=lambda a: "coeffs part %d" % a[0], on_result=on)
    run_jobs(rep, job_tables, [()], name=lambda a: "tables", on_result=on)
    return rep.finish(explanation="ipa/barycentric.go executed from SSA with field elements in the rational domain A_Q (identities only) and modulo r for the table construction.")


def replay(path):
    d = json.load(open(path))
    build = D.Build("c18", [IPA], [IPA + ".VerifC18Divide", IPA + ".VerifC18Coeffs", IPA + ".VerifC18Tables"])
    res = native_replay(build, d["pkg"], d["entry"], d["params"], d["values"], tag="manual")
    print(res["output"])
    return 1 if (res["failed"] or res["panics"]) else 0
