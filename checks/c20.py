"""C20 - parallel range splitter: exact cover, count, bounds, no overflow, join."""
import json
import sys
from gosmt import driver as D
from gosmt.check import Report, std_replay, native_replay, run_jobs, ctx_info, _Info
from gosmt.conc import join_obligations

PKG = D.MOD + "/common/parallel"


def setup(ex):
    ex.intrinsics["runtime.NumCPU"] = lambda ex, args, ins: (ex.ctx.params["numcpu"],)


PROG = None


def job(kind, a, b):
    prog = PROG
    if kind == "cover":
        h, params, unwind, grp = "VerifC20Cover", {"m": a, "numcpu": 16}, a + 1, "cover m=%d" % a
    elif kind == "zero":
        h, params, unwind, grp = "VerifC20Zero", {"m": a, "numcpu": 16}, a + 1, "zero m=%d" % a
    elif kind == "default":
        h, params, unwind, grp = "VerifC20Default", {"k": b, "numcpu": a}, a + 1, "default NumCPU=%d len(maxCpus)=%d" % (a, b)
    else:
        h, params, unwind, grp = "VerifC20Join", {"m": b, "numcpu": 16}, b + 1, "join m=%d" % b
    ctx, ex = D.execute(prog, PKG + "." + h, intmode="int", params=params, setup=setup, unwind=unwind, harness_pkgs=[PKG])
    extra = join_obligations(ex) if kind == "join" else []
    recs = D.discharge_all(ctx, extra=extra, timeout_ms=120000)
    return {"group": grp, "recs": recs, "info": ctx_info(ctx), "harness": h, "params": params}


def run(tier, seed):
    rep = Report("C20", tier, seed)
    build = D.Build("c20", [PKG], [PKG + ".*"])
    try:
        prog = build.load()
    except Exception as e:  # noqa
        rep.inconclusive_group("load", str(e))
        return rep.finish()
    ms = list(range(1, 33)) if tier == "quick" else list(range(1, 65)) + [100, 128]
    rep.bounds = {"n": "symbolic in [0, 2^62] (mathematical integers with a proved no-overflow obligation on every arithmetic result)",
                  "m (explicit limit)": "each concrete value in %s" % (ms if len(ms) < 40 else "1..64, 100, 128"),
                  "NumCPU (default path)": "each concrete value 1..16, len(maxCpus) in {0,2}",
                  "unwinding": "loop in Execute unrolled m+1 times with unwinding assertion",
                  "outside": "m > %d; schedules are not enumerated: join decided on Add/Done/Wait happens-before structure" % ms[-1]}
    rep.assumptions = ["runtime.NumCPU() returns the configured value (stub)", "goroutines run under the eager schedule; sync.WaitGroup modelled as a counter",
                       "join: the WaitGroup is the only synchronisation between Execute and its goroutines"]

    global PROG
    PROG = prog

    def on_result(a, item):
        kind = a[0]
        h = PKG + "." + item["harness"]
        if kind == "join":
            def replay(rec, params=item["params"]):
                for i in range(3):
                    res = native_replay(build, PKG, h, params, {"n": 2 * params["m"] + 1}, tag="join_%d" % params["m"])
                    if res["failed"] or res["panics"]:
                        return True, res["path"]
                return (None if not res["built"] else False), res["path"]
        else:
            replay = std_replay(build, PKG, h, item["params"], cpus=item["params"].get("numcpu") if kind == "default" else None)
        rep.add(item["group"], item["recs"], _Info(item["info"]), key_prefix=kind, replay=replay)

    jobs = [("cover", m, 0) for m in ms] + [("zero", m, 0) for m in (1, 2, 16)]
    jobs += [("default", cpus, k) for cpus in range(1, 17) for k in (0, 2)]
    jobs += [("join", 0, m) for m in (1, 2, 3, 4, 8, 16)]
    jobs.sort(key=lambda j: -j[1] if j[0] in ("cover", "default") else 0)
    run_jobs(rep, job, jobs, name=lambda a: "%s %s %s" % a, on_result=on_result)
    return rep.finish()
    ms = list(range(1, 33)) if tier == "quick" else list(range(1, 65)) + [100, 128]
    rep.bounds = {"n": "symbolic in [0, 2^62] (mathematical integers with a proved no-overflow obligation on every arithmetic result)",
                  "m (explicit limit)": "each concrete value in %s" % (ms if len(ms) < 40 else "1..64, 100, 128"),
                  "NumCPU (default path)": "each concrete value 1..16, len(maxCpus) in {0,2}",
                  "unwinding": "loop in Execute unrolled m+1 times with unwinding assertion",
                  "outside": "m > %d; schedules are not enumerated: join decided on Add/Done/Wait happens-before structure" % ms[-1]}
    rep.assumptions = ["runtime.NumCPU() returns the configured value (stub)", "goroutines run under the eager schedule; sync.WaitGroup modelled as a counter",
                       "join: the WaitGroup is the only synchronisation between Execute and its goroutines"]

    def cover(m):
        h = PKG + ".VerifC20Cover"
        params = {"m": m, "numcpu": 16}
        ctx, ex = D.execute(prog, h, intmode="int", params=params, setup=setup, unwind=m + 1, harness_pkgs=[PKG])
        recs = D.discharge_all(ctx, extra=join_obligations(ex), timeout_ms=120000)
        rep.add("cover m=%d" % m, recs, ctx, key_prefix="cover", replay=std_replay(build, PKG, h, params))

    def zero(m):
        h = PKG + ".VerifC20Zero"
        params = {"m": m, "numcpu": 16}
        ctx, ex = D.execute(prog, h, intmode="int", params=params, setup=setup, unwind=m + 1, harness_pkgs=[PKG])
        recs = D.discharge_all(ctx)
        rep.add("zero m=%d" % m, recs, ctx, key_prefix="zero", replay=std_replay(build, PKG, h, params))

    def default(cpus, k):
        h = PKG + ".VerifC20Default"
        params = {"k": k, "numcpu": cpus}
        ctx, ex = D.execute(prog, h, intmode="int", params=params, setup=setup, unwind=cpus + 1, harness_pkgs=[PKG])
        recs = D.discharge_all(ctx, extra=join_obligations(ex), timeout_ms=120000)
        rep.add("default NumCPU=%d len(maxCpus)=%d" % (cpus, k), recs, ctx, key_prefix="default",
                replay=std_replay(build, PKG, h, params, cpus=cpus))

    def join(n, m):
        h = PKG + ".VerifC20Join"
        params = {"n": n, "m": m, "numcpu": 16}
        ctx, ex = D.execute(prog, h, intmode="int", params=params, setup=setup, unwind=m + 1, harness_pkgs=[PKG])
        recs = D.discharge_all(ctx, extra=join_obligations(ex))

        def replay(rec):
            # schedule-dependent: run the sleeping native harness a few times
            for i in range(3):
                res = native_replay(build, PKG, h, params, {}, tag="join_%d_%d" % (n, m))
                if res["failed"] or res["panics"]:
                    return True, res["path"]
            return (None if not res["built"] else False), res["path"]
        rep.add("join n=%d m=%d" % (n, m), recs, ctx, key_prefix="join", replay=replay)

    for m in ms:
        rep.run_group("cover m=%d" % m, lambda m=m: cover(m))
    for m in (1, 2, 16):
        rep.run_group("zero m=%d" % m, lambda m=m: zero(m))
    for cpus in range(1, 17):
        for k in (0, 2):
            rep.run_group("default %d/%d" % (cpus, k), lambda cpus=cpus, k=k: default(cpus, k))
    for (n, m) in ((5, 3), (2, 4), (16, 16)):
        rep.run_group("join", lambda n=n, m=m: join(n, m))
    return rep.finish(explanation="parallel.Execute executed from SSA (Int mode); exact cover via a symbolic probe index, "
                      "order-independent; every arithmetic result carries a no-overflow obligation.")


def replay(path):
    d = json.load(open(path))
    build = D.Build("c20", [PKG], [PKG + ".*"])
    res = native_replay(build, d["pkg"], d["entry"], d["params"], d["values"], tag="manual")
    print(res["output"])
    return 1 if (res["failed"] or res["panics"]) else 0
