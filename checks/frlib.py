"""shared pieces for checks over bandersnatch/fr"""
import z3
from gosmt import driver as D
from gosmt import stdlib
from gosmt.exec import Obligation
from gosmt.values import is_term, b_and, b_not

FR = D.MOD + "/bandersnatch/fr"
Q = 13108968793781547619861935127046491459309155893440570251786403306729687672801
W = 1 << 64
R = (1 << 256) % Q
QINVNEG = 17410672245482742751

GENERIC = {"add": "_addGeneric", "sub": "_subGeneric", "neg": "_negGeneric", "double": "_doubleGeneric",
           "mul": "_mulGeneric", "fromMont": "_fromMontGeneric", "reduce": "_reduceGeneric", "Butterfly": "_butterflyGeneric"}


def route_generic(ex):
    """assembly-backed entry points -> portable twins (the assembly itself is checked by asm2smt)"""
    for a, g in GENERIC.items():
        ex.intrinsics[FR + "." + a] = (lambda ex_, args, ins, g=g: ex_.call_function(FR + "." + g, args, ins))
    for c in (3, 5, 13):
        def mb(ex_, args, ins, c=c):
            return ex_.call_function(FR + ".mulByConstant", [args[0], c], ins)
        ex.intrinsics[FR + ".MulBy%d" % c] = mb


def setup_fr(ex):
    stdlib.install(ex)
    route_generic(ex)


def bvval(limbs, width=320):
    """[l0..l3] (BitVec64 terms or ints) -> width-bit value"""
    ts = [l if is_term(l) else z3.BitVecVal(l, 64) for l in limbs]
    v = z3.Concat(ts[3], ts[2], ts[1], ts[0])
    return z3.ZeroExt(width - 256, v)


def intval(limbs):
    return sum((l if is_term(l) else z3.IntVal(l)) * (W ** i) for i, l in enumerate(limbs))


def var_limbs(ctx, name):
    return [ctx.vars[name + str(i)][0] for i in range(4)]


def note(ctx, label, idx=0):
    vs = [v for (l, g, v) in ctx.notes if l == label]
    return vs[idx]


def pyval(limbs):
    return sum(int(l) << (64 * i) for i, l in enumerate(limbs))


def model_elem(model, name):
    return sum(int(model.get(name + str(i), 0)) << (64 * i) for i in range(4))
