"""C05 - Pedersen commitment = sum v_i*G_i: signed-window recoding for all scalars, MSM loop."""
import json
import z3
from gosmt import driver as D
from gosmt import stdlib
from gosmt.group import GDom, GVal
from gosmt.check import Report, std_replay, native_replay, run_jobs, ctx_info, _Info
from gosmt.exec import Obligation
from gosmt.harness import frame_obligations
from gosmt.values import Unsupported, Ptr, Slice, is_term, b_and, b_not, simp_bool
from checks.frlib import FR, Q, W

BW = D.MOD + "/banderwagon"
BS = D.MOD + "/bandersnatch"
GPE = "github.com/consensys/gnark-crypto/ecc/bls12-381/bandersnatch.PointExtended"
PEN = BS + ".PointExtendedNormalized"
PROG = None
BUILD = None
GD = GDom("bv", 64)


def ob(label, viol):
    return Obligation(label, viol, "assert")


def fresh_regular(ex, p, tag):
    """fr.fromMont(z) in the BV encoding: z := limbs of UNMONT(z), an arbitrary value < r (bijection, C15)"""
    ls = [z3.BitVec(ex.ctx.fresh_name(tag), 64) for _ in range(4)]
    v = z3.Concat(ls[3], ls[2], ls[1], ls[0])
    ex.ctx.add_fact(z3.ULT(v, z3.BitVecVal(Q, 256)))
    for i in range(4):
        ex.store_to(Ptr(p.obj, p.off + i, p.sym), ls[i], "uint64")
        ex.ctx.vars["%s_%d_%d" % (tag, len(getattr(ex.ctx, "regular", [])), i)] = (ls[i], 64, False)
    ex.ctx.regular = getattr(ex.ctx, "regular", []) + [ls]
    return ls


def setup_scalarmul(ex):
    stdlib.install(ex)
    ex.prog.opaque[GPE] = GD
    ex.prog.opaque[PEN] = GD
    ex.prog._lay.clear()
    w = ex.ctx.params["w"]
    nwin = 256 // w

    def tables(ex_, args, ins):
        # outer slice: nwin inner slices, each backed by a lazy object "by specification"
        inner = []
        for k in range(nwin):
            def reader(ex2, ptr, tid, k=k):
                raise Unsupported("table entries are only used through the group-operation summaries")
            p = ex_.alloc_lazy(PEN, reader, label="table window %d" % k, n=1 << (w - 1))
            ex_.objs[p.obj]["window"] = k
            inner.append(Slice(p, 1 << (w - 1), 1 << (w - 1), PEN))
        outer = ex_.alloc("[]" + PEN, label="windows", cells=inner, count=nwin)
        return (Slice(outer, nwin, nwin, "[]" + PEN),)
    ex.intrinsics[BW + ".c05tables"] = tables

    def entry(ex_, p):
        """pointer to a table entry -> GVal"""
        info = ex_.objs[p.obj]
        if "window" in info:
            if len(p.sym) == 1:
                idx = p.sym[0][0]
            elif not p.sym:
                idx = p.off
            else:
                raise Unsupported("table pointer shape")
            j = idx if not is_term(idx) else idx
            one = GD.term(1)
            coeff = (j + 1) if not is_term(j) else (z3.ZeroExt(64 - j.size(), j) if j.size() < 64 else j) + one
            ex_.ctx.table_reads = getattr(ex_.ctx, "table_reads", 0) + 1
            return GVal({"kappa%d" % info["window"]: coeff}, GD)
        return ex_.load(p, PEN)

    def neg(ex_, args, ins):
        z, x = args
        v = entry(ex_, x)
        ex_.store_to(z, GD.neg(v), PEN)
        return (z,)
    ex.intrinsics["(*%s).Neg" % PEN] = neg

    def extadd(ex_, args, ins):
        p, p1, p2 = args
        a = ex_.load(p1, GPE)
        b = entry(ex_, p2)
        ex_.store_to(p, GD.add(a, b), GPE)
        return (p,)
    ex.intrinsics[BS + ".ExtendedAddNormalized"] = extadd
    ex.intrinsics[FR + ".fromMont"] = lambda ex_, args, ins: (fresh_regular(ex_, args[0], "sreg") and ())
    ex.global_override[BS + ".IdentityExt"] = lambda ex_, tid: ex_.alloc(GPE, label="IdentityExt", cells=[GD.zero()])


def digit_spec(S, w, k):
    """closed-form signed digit of window k: window_k(s + B) - h, h = 2^(w-1)-1, B = sum h*2^(wk)"""
    nwin = 256 // w
    h = (1 << (w - 1)) - 1
    B = sum(h << (w * i) for i in range(nwin))
    T = z3.ZeroExt(8, S) + z3.BitVecVal(B, 264)
    win = z3.Extract(w * k + w - 1, w * k, T)
    d = z3.ZeroExt(64 - w, win) - z3.BitVecVal(h, 64)
    return d, T


def job_scalarmul(w):
    h = "VerifC05ScalarMul"
    params = {"w": w}
    ctx, ex = D.execute(PROG, BW + "." + h, intmode="bv", params=params, setup=setup_scalarmul, harness_pkgs=[BW], unwind=300)
    res = [v for (l, g, v) in ctx.notes if l == "res"][0]
    if len(getattr(ctx, "regular", [])) != 1:
        raise Unsupported("expected exactly one FromMont of the scalar")
    ls = ctx.regular[0]
    S = z3.Concat(ls[3], ls[2], ls[1], ls[0])
    nwin = 256 // w
    obs = []
    for k in range(nwin):
        d, T = digit_spec(S, w, k)
        got = res.coeffs.get("kappa%d" % k, 0)
        obs.append(ob("window %d: net multiple of the window's table generator equals the closed-form signed digit" % k, GD.term(got) != d))
    d, T = digit_spec(S, w, 0)
    obs.append(ob("no carry out of the top window (sum of digits*2^(wk) = s)", z3.Extract(263, 256, T) != 0))
    extra = [g for g in res.coeffs if not g.startswith("kappa")]
    obs.append(ob("result only combines table entries", bool(extra)))
    recs = D.discharge_all(ctx, extra=obs, timeout_ms=300000)
    info = ctx_info(ctx)
    info["table_reads"] = getattr(ctx, "table_reads", 0)
    return {"group": "ScalarMul recoding w=%d" % w, "recs": recs, "info": info, "harness": h, "params": params}


# ------------------------------------------------------------------ MSM loop
GFR = "github.com/consensys/gnark-crypto/ecc/bls12-381/fr.Element"


def setup_msm(ex):
    """group values are carried in the X coordinate cell of a point (Y/Z/T cells are placeholders)"""
    stdlib.install(ex)
    gd = GDom("bv", 256)
    ex.ctx.gd = gd
    ex.prog.opaque[GFR] = gd
    ex.prog._lay.clear()
    ex.global_override[BS + ".IdentityExt"] = lambda ex_, tid: ex_.alloc(GPE, label="IdentityExt", cells=[gd.zero() for _ in range(4)])
    ex.ctx.sm_calls = []

    def scalarmul(ex_, args, ins):
        pp, scalar, res = args
        stride = ex_.prog.ncells(BW + ".PrecompPoint")
        idx = pp.off // stride
        s = z3.Concat(*[l if is_term(l) else z3.BitVecVal(l, 64) for l in reversed(list(scalar))])
        s = z3.simplify(s)
        xp = Ptr(res.obj, res.off, res.sym)
        cur = ex_.load(xp, GFR)
        ex_.store_to(xp, gd.add(cur, GVal({"G%d" % idx: s}, gd)), GFR)
        ex_.ctx.sm_calls.append((idx, ex_.guard))
        return ()
    ex.intrinsics["(*%s.PrecompPoint).ScalarMul" % BW] = scalarmul


def job_msm(n):
    h = "VerifC05MSM"
    params = {"n": n}
    ctx, ex = D.execute(PROG, BW + "." + h, intmode="bv", params=params, setup=setup_msm, harness_pkgs=[BW], unwind=600)
    res = [v for (l, g, v) in ctx.notes if l == "res"][0]
    gd = ctx.gd
    final = res[0]
    obs = []
    for i in range(n):
        sfx = "" if i == 0 else "#%d" % i
        zero = ctx.vars["zero" + sfx][0]
        # the i-th created scalar: scalars are only created when zero is false, so names are counted per creation
        got = final.coeffs.get("G%d" % i, 0)
        obs.append((i, zero, got))
    # expected: coefficient of G_i is the Montgomery limbs value handed over (ScalarMul contract: UNMONT inside) or 0 when zero
    out = []
    created = 0
    names = sorted(k for k in ctx.vars if k.startswith("s0"))
    for i, zero, got in obs:
        # find limbs created under "not zero_i": they are the k-th vU64 calls; harness creates them only in the non-zero branch,
        # which is a symbolic fork: both sides executed, so every i has its own limbs
        sfx = "" if i == 0 else "#%d" % i
        ls = [ctx.vars["s%d%s" % (j, sfx)][0] for j in range(4)]
        sval = z3.Concat(ls[3], ls[2], ls[1], ls[0])
        exp = z3.If(z3.Or(zero, sval == 0), z3.BitVecVal(0, 256), sval)
        out.append(ob("coefficient of G_%d is the scalar at position %d (0 when the scalar is zero)" % (i, i), gd.term(got) != exp))
    extra = [g for g in final.coeffs if int(g[1:]) >= n]
    out.append(ob("no basis point beyond the vector length is used", bool(extra)))
    out += frame_obligations(ex)
    recs = D.discharge_all(ctx, extra=out, timeout_ms=120000)
    return {"group": "MSM loop n=%d" % n, "recs": recs, "info": ctx_info(ctx), "harness": h, "params": params}


# ------------------------------------------------------------------ O3: curve formulas (rational functions)
PROGF = None
BUILDF = None


def job_formulas():
    from gosmt import field
    from gosmt.field import FVal, GNARK_FR
    from gosmt.harness import _name
    from checks.c01 import real_to_mod
    h = "VerifC05Formulas"
    BSP = BS

    def setup(ex):
        stdlib.install(ex)
        dom = field.install_real(ex, types=("gnark",))
        A = dom.sym("A", nonzero=True, ctx=ex.ctx)
        Dc = dom.sym("D", nonzero=True, ctx=ex.ctx)
        ex.ctx.Dsym = Dc

        def curve(ex_, tid):
            p = ex_.prog
            d = p.under(tid)
            inner = d["elem"] if d["kind"] == "pointer" else tid
            cells = []
            for f in p.under(inner)["fields"]:
                if f["name"] == "A":
                    cells += [A]
                elif f["name"] == "D":
                    cells += [Dc]
                else:
                    cells += [ex_.zero_leaf(t) for t in p.layout(f["type"])]
            obj = ex_.alloc(inner, label="CurveParams", cells=cells)
            return ex_.alloc(tid, label="CurveParams ptr", cells=[obj]) if d["kind"] == "pointer" else obj
        ex.global_override[BSP + ".CurveParams"] = curve
        ex.global_override[BSP + ".IdentityExt"] = lambda ex_, tid: ex_.alloc(tid, label="IdentityExt (0,1,1,0)", cells=[dom.const(0), dom.const(1), dom.const(1), dom.const(0)])

        def sym(ex_, args, ins):
            n = _name(ex_, args[0])
            v = dom.sym("V_" + n, nonzero=(n == "z1"), ctx=ex_.ctx)
            ex_.ctx.vars[n] = (v.t, 0, False)
            return (v,)
        ex.intrinsics[BSP + ".c05fp"] = sym
    ctx, ex = D.execute(PROGF, BSP + "." + h, intmode="bv", params={}, setup=setup, harness_pkgs=[BSP], unwind=1000, prune=False)
    g = lambda n: [v for (l, gg, v) in ctx.notes if l == n][0]
    x1, y1, z1, x2, y2 = [ctx.vars[n][0] for n in ("x1", "y1", "z1", "x2", "y2")]
    Dv = ctx.Dsym.t
    sX, sY, sZ, sT = [c.t for c in g("sum")]
    ctx.add_fact(sZ != 0)
    ctx.add_fact(1 + Dv * x1 * x2 * y1 * y2 != 0)
    ctx.add_fact(1 - Dv * x1 * x2 * y1 * y2 != 0)

    def idob(label, lhs, rhs):
        o = Obligation(label, lhs != rhs, "assert")
        o.ident = (lhs, rhs)
        return o
    obs = [idob("ExtendedAddNormalized: X3/Z3 = (x1 y2 + y1 x2)/(1 + d x1 x2 y1 y2)", sX / sZ, (x1 * y2 + y1 * x2) / (1 + Dv * x1 * x2 * y1 * y2)),
           idob("ExtendedAddNormalized: Y3/Z3 = (y1 y2 + 5 x1 x2)/(1 - d x1 x2 y1 y2)  (a = -5)", sY / sZ, (y1 * y2 + 5 * x1 * x2) / (1 - Dv * x1 * x2 * y1 * y2)),
           idob("ExtendedAddNormalized keeps the extended invariant T3 Z3 = X3 Y3", sT * sZ, sX * sY)]
    p1 = [c.t for c in g("p1")]
    for nm, got, want in (("X", p1[0], x1 * z1), ("Y", p1[1], y1 * z1), ("Z", p1[2], z1), ("T", p1[3], x1 * y1 * z1)):
        obs.append(idob("PointExtendedFromProj: %s coordinate (T = XY/Z)" % nm, got, want))
    ng = [c.t for c in g("neg")]
    for nm, got, want in (("X", ng[0], -x2), ("Y", ng[1], y2), ("T", ng[2], -(x2 * y2))):
        obs.append(idob("PointExtendedNormalized.Neg: %s coordinate" % nm, got, want))
    idn = [c.t for c in g("ident")]
    for nm, got, want in zip("XYZT", idn, (0, 1, 1, 0)):
        obs.append(idob("IdentityExt %s coordinate" % nm, got, z3.RealVal(want)))
    recs = D.discharge_all(ctx, extra=obs, timeout_ms=60000)
    return {"group": "curve formulas (ExtendedAddNormalized, PointExtendedFromProj, Neg)", "recs": recs, "info": ctx_info(ctx), "harness": h, "params": {}}


def run(tier, seed):
    global PROG, BUILD
    rep = Report("C05", tier, seed)
    BUILD = D.Build("c05", [BW], [BW + ".*"])
    try:
        PROG = BUILD.load()
        stdlib.annotate_used_results(PROG)
    except Exception as e:  # noqa
        rep.inconclusive_group("load", str(e))
        return rep.finish()
    rep.bounds = {"scalar": "all four limbs symbolic, every regular value < r", "window sizes": [8, 16],
                  "table": "given by specification: entry [k][j] = (j+1)*kappa_k with one generator symbol per window (index range is an obligation)",
                  "formulas": "ExtendedAddNormalized / PointExtendedFromProj / Neg on symbolic coordinates against the twisted Edwards addition law (a = -5), identities by polynomial normal form",
                  "outside": "table construction (NewPrecompPoint, not built); MSM lengths beyond the listed ones"}
    rep.assumptions = ["fr.fromMont is the UNMONT bijection onto [0,r) (C15)", "ExtendedAddNormalized / PointExtendedNormalized.Neg are group addition / negation (law identities are a separate group)",
                       "kappa_k stands for 2^(w*k)*G_i: connection between table index expression and construction stated, not re-proved"]

    def on_result(a, item):
        h = BW + "." + item["harness"]
        inner = std_replay(BUILD, BW, h, item["params"])

        def replay(rec):
            # the model fixes the regular value of the scalar; the harness input is its Montgomery form
            m = dict(rec.get("model") or {})
            reg = sum(int(m.get("sreg_0_%d" % i, 0)) << (64 * i) for i in range(4))
            mont = reg * (1 << 256) % Q
            for i in range(4):
                m["s%d" % i] = (mont >> (64 * i)) & (W - 1)
            r2 = dict(rec)
            r2["model"] = m
            return inner(r2)
        rep.add(item["group"], item["recs"], _Info(item["info"]), key_prefix=item["harness"], replay=replay)
    run_jobs(rep, job_scalarmul, [(8,), (16,)], name=lambda a: "ScalarMul w=%d" % a, on_result=on_result)

    def on_msm(a, item):
        rep.add(item["group"], item["recs"], _Info(item["info"]), key_prefix=item["harness"], replay=std_replay(BUILD, BW, BW + "." + item["harness"], item["params"]))
    ns = [0, 1, 2, 5, 6] if tier == "quick" else [0, 1, 2, 3, 5, 6, 7, 16, 32]
    run_jobs(rep, job_msm, [(n,) for n in ns], name=lambda a: "MSM n=%d" % a, on_result=on_msm)
    global PROGF, BUILDF
    try:
        from gosmt.field import GNARK_FR
        BUILDF = D.Build("c05f", [BS], [BS + ".VerifC05Formulas"], allow_extra=[GNARK_FR])
        PROGF = BUILDF.load()

        def on_f(a, item):
            rep.add(item["group"], item["recs"], _Info(item["info"]), key_prefix=item["harness"], replay=None)
        run_jobs(rep, job_formulas, [()], name=lambda a: "formulas", on_result=on_f)
    except Exception as e:  # noqa
        rep.inconclusive_group("curve formulas", str(e)[:300])
    return rep.finish(explanation="PrecompPoint.ScalarMul executed from SSA (bit-vectors) for a fully symbolic scalar; per-window closed-form signed-digit reference.")


def replay(path):
    d = json.load(open(path))
    build = D.Build("c05", [BW], [BW + ".*"])
    res = native_replay(build, d["pkg"], d["entry"], d["params"], d["values"], tag="manual")
    print(res["output"])
    return 1 if (res["failed"] or res["panics"]) else 0
