"""byte-level check of fp.BytesLE (part of C11): little-endian encoding of the regular value for every base-field element"""
import z3
from gosmt import driver as D
from gosmt import stdlib, bigint
from gosmt.bigint import W
from gosmt.check import ctx_info, native_replay
from gosmt.exec import Obligation
from gosmt.field import GNARK_FR
from gosmt.values import Unsupported, Ptr, is_term, b_and, b_not, cases_of

FP = D.MOD + "/bandersnatch/fp"
P_MOD = 52435875175126190479447740508185965837690552500527637822603658699938581184513
UNMONTP = z3.Function("UNMONT_P", z3.IntSort(), z3.IntSort())
PROG = None
BUILD = None


def setup(ex):
    stdlib.install(ex)
    bigint.install(ex)
    stdlib.install_binary_int(ex)

    def frommont(ex_, args, ins):
        z = args[0]
        ls = [ex_.load(Ptr(z.obj, z.off + i, z.sym), "uint64") for i in range(4)]
        X = sum((l if is_term(l) else z3.IntVal(l)) * W ** i for i, l in enumerate(ls))
        V = UNMONTP(X)
        ws = [z3.Int(ex_.ctx.fresh_name("um")) for _ in range(4)]
        ex_.ctx.add_fact(z3.And([z3.And(w >= 0, w < W) for w in ws] + [V == sum(w * W ** i for i, w in enumerate(ws)), V >= 0, V < P_MOD]))
        for i in range(4):
            ex_.store_to(Ptr(z.obj, z.off + i, z.sym), ws[i], "uint64")
        return ()
    ex.intrinsics[GNARK_FR + ".fromMont"] = frommont
    ex.global_zero.add(GNARK_FR + ".bigIntPool")


def job():
    h = "VerifC11BytesLE"
    ctx, ex = D.execute(PROG, FP + "." + h, intmode="int", params={"big_bytes_max": 32}, setup=setup, harness_pkgs=[FP], unwind=200, prune=True)
    A = sum(ctx.vars["a%d" % i][0] * W ** i for i in range(4))
    ctx.add_fact(A < P_MOD)
    V = UNMONTP(A)
    ctx.add_fact(z3.And(V >= 0, V < P_MOD))
    ctx.vars["V_regular"] = (V, 256, False)
    obs = []
    ln = [v for (l, g, v) in ctx.notes if l == "len"][0]
    obs.append(Obligation("BytesLE returns 32 bytes", ln != 32, "assert"))
    bs = [v for (l, g, v) in ctx.notes if l == "b"][0]
    cs = cases_of(bs)
    if len(cs) != 1 or cs[0][1].len != 32:
        obs.append(Obligation("BytesLE returns one 32-byte slice", True, "assert"))
    else:
        s = cs[0][1]
        cells = [ex.load(Ptr(s.ptr.obj, s.ptr.off + i, s.ptr.sym), "uint8") for i in range(32)]
        val = sum((c if is_term(c) else z3.IntVal(c)) * 256 ** i for i, c in enumerate(cells))
        obs.append(Obligation("the bytes are the little-endian encoding of the regular (non-Montgomery) value", val != V, "assert"))
    aa = [v for (l, g, v) in ctx.notes if l == "a_after"][0]
    obs.append(Obligation("the argument is not modified", z3.Or([x != ctx.vars["a%d" % i][0] for i, x in enumerate(aa)]) if any(is_term(x) for x in aa) else False, "assert"))
    recs = D.discharge_all(ctx, extra=obs, timeout_ms=120000)
    return {"group": "fp.BytesLE byte layout (all base-field elements)", "recs": recs, "info": ctx_info(ctx), "harness": h, "params": {}}


def replay_cb(rec):
    m = dict(rec.get("model") or {})
    if "V_regular" in m:
        mont = int(m["V_regular"]) * (1 << 256) % P_MOD
        for i in range(4):
            m["a%d" % i] = (mont >> (64 * i)) & (W - 1)
    res = native_replay(BUILD, FP, FP + ".VerifC11BytesLE", {}, m, tag="c11bytes")
    if not res["built"]:
        return None, res["path"]
    try:
        bs = res["notes"]["b"][0]
        got = sum(int(x) << (8 * i) for i, x in enumerate(bs))
        a = sum(int(m.get("a%d" % i, 0)) << (64 * i) for i in range(4))
        want = a * pow(1 << 256, -1, P_MOD) % P_MOD
        return (got != want or len(bs) != 32), res["path"]
    except Exception:
        return bool(res["panics"]), res["path"]


def load():
    global PROG, BUILD
    BUILD = D.Build("c11b", [FP], [FP + ".VerifC11BytesLE"], allow_extra=[GNARK_FR, "encoding/binary"])
    PROG = BUILD.load()
    stdlib.annotate_used_results(PROG)
