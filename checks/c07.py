"""C07 - compressed encoding canonical / C11 map-to-scalar-field well defined: representation invariance, zero guard (A_Q)."""
import json
import z3
from gosmt import driver as D
from gosmt.check import Report, std_replay, native_replay, run_jobs, ctx_info, _Info
from gosmt.exec import Obligation
from gosmt.field import FVal, GNARK_FR
from gosmt.harness import frame_obligations
from gosmt.values import Unsupported, is_term, b_and, b_not, b_term
from checks import ptlib as P
from checks.ptlib import BW, GEL, cells_equal, ident

PROG = None
BUILD = None
PMOD = 52435875175126190479447740508185965837690552500527637822603658699938581184513


def ob(label, viol):
    return Obligation(label, viol, "assert")


def setup(ex):
    dom = P.setup_pt(ex)
    zkind = ex.ctx.params.get("zkind", "nonzero")

    def base(ex_, args, ins):
        X = dom.sym("X")
        Y = dom.sym("Y", nonzero=True, ctx=ex_.ctx)
        Z = dom.const(1) if zkind == "one" else dom.sym("Z", nonzero=True, ctx=ex_.ctx)
        for n, v in (("X", X), ("Y", Y), ("Z", Z)):
            ex_.ctx.vars[n] = (v.t, 0, False)
        return ((X, Y, Z),)
    ex.intrinsics[BW + ".c07base"] = base
    ex.ctx.params["kind_lambda"] = "nonzero"


def truth(v):
    return v if isinstance(v, bool) else None


def job(variant, zkind):
    h = "VerifC07Invariance"
    params = {"variant": variant, "zkind": zkind}
    ctx, ex = D.execute(PROG, BW + "." + h, intmode="bv", params=params, setup=setup, harness_pkgs=[BW], unwind=10000, prune=False)
    g = lambda n: [v for (l, gg, v) in ctx.notes if l == n][0]
    obs = []
    eqb = cells_equal(list(g("pbytes")), list(g("qbytes")))
    obs.append(ob("Bytes() is the same for both representations", b_not(eqb)))
    for n, want in (("eq_pq", True), ("eq_qp", True), ("eq_pp", True), ("eq_pzero", False), ("eq_zerop", False), ("eq_zerozero", False)):
        v = g(n)
        obs.append(ob("Equal: %s is %s" % (n[3:], want), b_not(v) if want else v))
    mp, mq = g("map_p"), g("map_q")
    r = ident(mp.t, mq.t)
    obs.append(ob("MapToScalarField gives the same scalar for both representations", False if r is True else mp.t != mq.t))
    X, Y = ctx.vars["X"][0], ctx.vars["Y"][0]
    apps = ctx.iota.apps
    okarg = bool(apps) and all(ident(t, X / Y) is True for (t, r_) in apps)
    obs.append(ob("MapToScalarField maps the base-field value X/Y (not Y/X, independent of Z)", not okarg))
    obs.append(ob("SetBytesUncompressed(trusted) accepts BytesUncompressedTrusted()", g("unc_err")))
    obs.append(ob("uncompressed trusted round trip is Equal to the original", b_not(g("unc_equal"))))
    params.pop("zkind")
    recs = D.discharge_all(ctx, extra=obs, timeout_ms=60000)
    info = ctx_info(ctx)
    info["nonzero_assumptions"] = [str(t)[:60] for t in ctx.fdom.nonzero_assumptions[:8]]
    return {"group": "invariance variant=%d Z %s" % (variant, zkind), "recs": recs, "info": info, "harness": h, "params": params}


def run_for(pid, tier, seed):
    global PROG, BUILD
    rep = Report(pid, tier, seed)
    BUILD = D.Build("c07", [BW], [BW + ".VerifC07Invariance"], allow_extra=[GNARK_FR, P.GB])
    try:
        PROG = BUILD.load()
    except Exception as e:  # noqa
        rep.inconclusive_group("load", str(e))
        return rep
    rep.bounds = {"elements": "coordinates (X, Y, Z) free base-field symbols with Y != 0, Z != 0 (superset of every reachable representation), Z = 1 fast path separately",
                  "re-representations": "projective scaling by an arbitrary non-zero lambda, (-X,-Y,Z), both, and normalisation",
                  "outside": "x1*y2 = x2*y1 IMPLIES same Banderwagon class (number theory about the curve constant d); decode(encode(P)) through the real decoder is exercised by the native side of the harness and by C06"}
    rep.assumptions = ["field operations by contract (rational-function identities)", "LexicographicallyLargest: uninterpreted sign predicate with lexl(-y) = not lexl(y) for y != 0",
                       "canonical field encoding injective (equal bytes iff equal field elements)", "fp -> bytes -> fr map (little-endian reduction) an uninterpreted function of the base-field value"]

    def on(a, item):
        inner = std_replay(BUILD, BW, BW + "." + item["harness"], item["params"])

        def cb(rec):
            r2 = dict(rec)
            r2["model"] = {k: P.real_to_mod(v, PMOD) for k, v in (rec.get("model") or {}).items() if k == "lambda"}
            return inner(r2)
        rep.add(item["group"], item["recs"], _Info(item["info"]), key_prefix=item["harness"], replay=cb)
    run_jobs(rep, job, [(v, zk) for v in range(4) for zk in ("nonzero", "one")], name=lambda a: "variant %s" % (a,), on_result=on)
    return rep


def run(tier, seed):
    rep = run_for("C07", tier, seed)
    return rep.finish(explanation="banderwagon Element.Bytes/Equal/MapToScalarField/BytesUncompressedTrusted executed from SSA (with gnark's FromProj, Div) on symbolic coordinates.")


def replay(path):
    d = json.load(open(path))
    build = D.Build("c07", [BW], [BW + ".VerifC07Invariance"])
    res = native_replay(build, d["pkg"], d["entry"], d["params"], d["values"], tag="manual")
    print(res["output"])
    return 1 if (res["failed"] or res["panics"]) else 0
