"""C09 - variable-base MSM: digit partition for every window width, chunk processing and orchestration, top-level split."""
import json
import z3
from gosmt import driver as D
from gosmt import stdlib, gpoint
from gosmt.group import GDom, GVal
from gosmt.check import Report, std_replay, native_replay, run_jobs, ctx_info, _Info
from gosmt.exec import Obligation
from gosmt.harness import frame_obligations
from gosmt.values import Unsupported, Ptr, Slice, is_term, b_and, b_not, simp_bool
from checks.frlib import FR, Q, W

BS = D.MOD + "/bandersnatch"
PROG = None
BUILD = None


def ob(label, viol):
    return Obligation(label, viol, "assert")


def nchunks(c):
    return 256 // c + (1 if 256 % c else 0)


def digit_spec(S, c, k, width=64):
    """closed-form signed digit: window_k(s + B) - 2^(c-1), B = sum_k 2^(c-1) 2^(ck)"""
    nb = nchunks(c)
    h = 1 << (c - 1)
    B = sum(h << (c * i) for i in range(nb))
    T = z3.ZeroExt(64, S) + z3.BitVecVal(B, 320)
    win = z3.Extract(c * k + c - 1, c * k, T)
    return z3.ZeroExt(width - c, win) - z3.BitVecVal(h, width), T


def sval(ctx, i):
    sfx = "" if i == 0 else "#%d" % i
    ls = [ctx.vars["s%d%s" % (j, sfx)][0] for j in range(4)]
    return z3.Concat(ls[3], ls[2], ls[1], ls[0])


def setup_inner(ex):
    stdlib.install(ex)
    gd = GDom("bv", 64, levels=True)
    gpoint.install(ex, gd)
    ex.intrinsics[BS + ".c09point"] = lambda ex_, args, ins: ((gd.gen(("kappa%d" % args[0], 0)), gd.zero()),)
    ex.intrinsics["runtime.NumCPU"] = lambda ex_, args, ins: (ex_.ctx.params.get("numcpu", 16),)


def decode_window(X, c, k, width=64):
    msb = 1 << (c - 1)
    hi = min(c * k + c - 1, 255)
    bits = z3.Extract(hi, c * k, X)
    bits = z3.ZeroExt(width - bits.size(), bits)
    return z3.If(bits & msb == 0, bits, -((bits & ~z3.BitVecVal(msb, width)) + 1))


def setup_inner_summary(ex):
    """msmC<c> orchestration with the chunk processor summarised by its contract (proved with real buckets in the
    non-summarised groups): res = sum_i digit(window_chunk(scalar_i)) * points[i], buckets large enough"""
    setup_inner(ex)
    gd = ex.ctx.gd
    EL = FR + ".Element"

    def chunk(ex_, args, ins):
        j, res, buckets, c, points, scalars = args
        if is_term(j) or is_term(c):
            raise Unsupported("symbolic chunk index")
        ns = scalars.len
        if points.len < ns:
            ex_.panic_if(True, "chunk processor: fewer points than scalars")
        nbk = buckets.len
        last_bits = min(c, 256 - c * j)
        need = (1 << (c - 1)) if last_bits == c else 1
        if nbk < need:
            ex_.panic_if(True, "chunk processor: %d buckets for chunk %d of width %d" % (nbk, j, c))
        acc = gd.zero()
        pa = ex_.prog.ncells(points.elem)
        for i in range(ns):
            g = ex_.load(Ptr(points.ptr.obj, points.ptr.off + pa * i, points.ptr.sym), gpoint.GFR)
            v = ex_.load(Ptr(scalars.ptr.obj, scalars.ptr.off + 4 * i, scalars.ptr.sym), EL)
            X = z3.Concat(*[l if is_term(l) else z3.BitVecVal(l, 64) for l in reversed(list(v))])
            acc = gd.add(acc, gd.scale(g, decode_window(X, c, j)))
        gpoint.setg(ex_, res, acc, 3)
        ex_.ctx.chunk_calls = getattr(ex_.ctx, "chunk_calls", 0) + 1
        return ()
    ex.intrinsics[BS + ".msmProcessChunkPointAffineDMA"] = chunk


def job_inner(c, n, split, summary=0):
    h = "VerifC09Inner"
    params = {"c": c, "n": n, "split": split}
    ctx, ex = D.execute(PROG, BS + "." + h, intmode="bv", params=params, setup=(setup_inner_summary if summary else setup_inner), harness_pkgs=[BS], unwind=100000, prune=False)
    for i in range(n):
        ctx.add_fact(z3.ULT(sval(ctx, i), z3.BitVecVal(1 << 254, 256)))
    res = [v for (l, g, v) in ctx.notes if l == "res"][0][0]
    obs = []
    nb = nchunks(c)
    msb = 1 << (c - 1)
    seen = set()
    for i in range(n):
        X = sval(ctx, i)
        for k in range(nb):
            hi = min(c * k + c - 1, 255)
            bits = z3.Extract(hi, c * k, X)
            bits = z3.ZeroExt(64 - bits.size(), bits)
            d = z3.If(bits & msb == 0, bits, -((bits & ~z3.BitVecVal(msb, 64)) + 1))
            key = ("kappa%d" % i, c * k)
            seen.add(key)
            got = res.coeffs.get(key, 0)
            obs.append(ob("point %d chunk %d: contribution at doubling level %d equals the signed digit its window encodes" % (i, k, c * k), res.dom.term(got) != d))
    extra = [k for k, v in res.coeffs.items() if k not in seen and not (not is_term(v) and v == 0)]
    for k in extra[:8]:
        obs.append(ob("no contribution outside the chunk positions (found %s)" % (k,), res.dom.term(res.coeffs[k]) != 0))
    recs = D.discharge_all(ctx, extra=obs, timeout_ms=300000)
    info = ctx_info(ctx)
    info["group_ops"] = getattr(ctx, "group_ops", 0)
    return {"group": "msmC%d n=%d split=%d%s" % (c, n, split, " [chunk processor summarised]" if summary else " [real buckets]"), "recs": recs, "info": info, "harness": h, "params": params}


# ---------------------------------------------------------------- digit partition only (any c)
def setup_partition(ex):
    stdlib.install(ex)
    gd = GDom("bv", 64)
    gpoint.install(ex, gd)
    ex.intrinsics[BS + ".c09point"] = lambda ex_, args, ins: ((gd.gen("kappa%d" % args[0]), gd.zero()),)
    ex.intrinsics["runtime.NumCPU"] = lambda ex_, args, ins: (16,)
    # the chunk processor is not run in this group
    ex.intrinsics[BS + ".msmProcessChunkPointAffineDMA"] = lambda ex_, args, ins: ()


def job_partition(c):
    h = "VerifC09Chunk"
    params = {"c": c, "chunk": 0, "buckets": 1}
    ctx, ex = D.execute(PROG, BS + "." + h, intmode="bv", params=params, setup=setup_partition, harness_pkgs=[BS], unwind=100000, prune=False)
    S = sval(ctx, 0)
    ctx.add_fact(z3.ULT(S, z3.BitVecVal(Q, 256)))
    # partitioned scalar: find it through the chunk processor's (stubbed) argument? it is the first result of partitionScalars:
    ps = ctx.partitioned
    P = z3.Concat(*[l if is_term(l) else z3.BitVecVal(l, 64) for l in reversed(ps)])
    nb = nchunks(c)
    msb = 1 << (c - 1)
    obs = []
    for k in range(nb):
        d, T = digit_spec(S, c, k)
        hi = min(c * k + c - 1, 255)
        bits = z3.Extract(hi, c * k, P)
        bits = z3.ZeroExt(64 - bits.size(), bits)
        dec = z3.If(bits & msb == 0, bits, -((bits & ~z3.BitVecVal(msb, 64)) + 1))
        obs.append(ob("chunk %d: stored window decodes (as the chunk processor reads it) to the closed-form signed digit" % k, dec != d))
    d, T = digit_spec(S, c, 0)
    obs.append(ob("no carry out of the top chunk", z3.Extract(319, c * nb, T) != 0))
    small = [v for (l, g, v) in ctx.notes if l == "small"][0]
    exp = z3.If(z3.And(S != 0, z3.ULT(S, z3.BitVecVal(1 << c, 256))), z3.BitVecVal(1, 64), z3.BitVecVal(0, 64))
    obs.append(ob("smallValues counts exactly the scalars 0 < s < 2^c", (small if is_term(small) else z3.BitVecVal(small, 64)) != exp))
    recs = D.discharge_all(ctx, extra=obs, timeout_ms=300000)
    return {"group": "partitionScalars c=%d" % c, "recs": recs, "info": ctx_info(ctx), "harness": h, "params": params}


def setup_partition2(ex):
    setup_partition(ex)

    def capture(ex_, args, ins):
        scal = args[5]
        ex_.ctx.partitioned = list(ex_.load(Ptr(scal.ptr.obj, scal.ptr.off, scal.ptr.sym), FR + ".Element"))
        return ()
    ex.intrinsics[BS + ".msmProcessChunkPointAffineDMA"] = capture


# ---------------------------------------------------------------- top-level MultiExp
PSV = z3.Function("PARTITIONED", z3.BitVecSort(256), z3.BitVecSort(256))


def setup_multiexp(ex):
    stdlib.install(ex)
    gd = GDom("bv", 256)
    gpoint.install(ex, gd)
    ex.intrinsics[BS + ".c09point"] = lambda ex_, args, ins: ((gd.gen("kappa%d" % args[0]), gd.zero()),)
    ex.intrinsics["runtime.NumCPU"] = lambda ex_, args, ins: (ex_.ctx.params.get("numcpu", 16),)
    EL = FR + ".Element"

    def limbs(v):
        return z3.Concat(*[l if is_term(l) else z3.BitVecVal(l, 64) for l in reversed(list(v))])

    def partition(ex_, args, ins):
        scalars, c, mont, nbt = args
        n = scalars.len
        cells = []
        for i in range(n):
            v = ex_.load(Ptr(scalars.ptr.obj, scalars.ptr.off + 4 * i, scalars.ptr.sym), EL)
            pv = PSV(limbs(v))
            cells += [z3.Extract(64 * j + 63, 64 * j, pv) for j in range(4)]
        ex_.ctx.partition_calls = getattr(ex_.ctx, "partition_calls", []) + [(c, mont, nbt, n)]
        ptr = ex_.alloc(EL, label="partitioned", cells=cells, count=n)
        return (Slice(ptr, n, n, EL), ex_.ctx.params.get("smallvalues", 0))
    ex.intrinsics[BS + ".partitionScalars"] = partition

    def inner(ex_, args, ins):
        p, c, points, scalars, split = args
        if not (not is_term(c) and c in (4, 5, 6, 7, 8, 9, 10, 11, 12, 13, 14, 15, 16, 20, 21, 22)):
            ex_.panic_if(True, "msmInnerPointProj: window width %s not implemented" % c)
        np_, ns = points.len, scalars.len
        if is_term(np_) or is_term(ns):
            raise Unsupported("symbolic slice lengths at msmInnerPointProj")
        # the real routine iterates over len(scalars) and indexes points: fewer points panics, more are ignored
        if np_ < ns:
            ex_.panic_if(True, "msmInnerPointProj: fewer points than scalars")
        acc = gd.zero()
        pa = ex_.prog.ncells(points.elem)
        for i in range(ns):
            g = ex_.load(Ptr(points.ptr.obj, points.ptr.off + pa * i, points.ptr.sym), gpoint.GFR)
            v = ex_.load(Ptr(scalars.ptr.obj, scalars.ptr.off + 4 * i, scalars.ptr.sym), EL)
            acc = gd.add(acc, gd.scale(g, limbs(v)))
        gpoint.setg(ex_, p, acc, 3)
        ex_.ctx.inner_calls = getattr(ex_.ctx, "inner_calls", []) + [(c, np_, ns, split)]
        return ()
    ex.intrinsics[BS + ".msmInnerPointProj"] = inner


def job_multiexp(n, m, tasks, mont, numcpu, small):
    h = "VerifC09MultiExp"
    params = {"n": n, "nscalars": m, "tasks": tasks, "mont": mont, "numcpu": numcpu, "smallvalues": small}
    ctx, ex = D.execute(PROG, BS + "." + h, intmode="bv", params=params, setup=setup_multiexp, harness_pkgs=[BS], unwind=100000, prune=False)
    err = [v for (l, g, v) in ctx.notes if l == "err"][0]
    obs = []
    if n != m:
        obs.append(ob("length mismatch gives an error", err is not True))
        obs.append(ob("length mismatch: no MSM work started", bool(getattr(ctx, "inner_calls", []))))
    else:
        obs.append(ob("no error for equal lengths", err is not False))
        res = [v for (l, g, v) in ctx.notes if l == "res"][0][0]
        for i in range(n):
            si = sval(ctx, i)
            # true facts about the partitioned form: zero exactly for the zero scalar; scalars are valid elements
            ctx.add_fact((PSV(si) == 0) == (si == 0))
            ctx.add_fact(z3.ULT(si, z3.BitVecVal(Q, 256)))
        for i in range(n):
            exp = PSV(sval(ctx, i))
            got = res.coeffs.get("kappa%d" % i, 0)
            obs.append(ob("point %d is paired with (the partitioned form of) scalar %d exactly once" % (i, i), res.dom.term(got) != exp))
        pc = getattr(ctx, "partition_calls", [])
        obs.append(ob("scalars are partitioned once with the Montgomery flag and task count of the configuration",
                      not (len(pc) == 1 and pc[0][1] == (mont == 1) and pc[0][2] == (tasks if tasks > 0 else numcpu) and pc[0][3] == n)))
        cs = set(c for (c, a, b, s) in getattr(ctx, "inner_calls", []))
        obs.append(ob("all sub-MSMs use the window width the scalars were partitioned with", not (len(cs) <= 1 and (not pc or cs <= {pc[0][0]}))))
    obs += frame_obligations(ex)
    recs = D.discharge_all(ctx, extra=obs, timeout_ms=120000)
    info = ctx_info(ctx)
    info["inner_calls"] = len(getattr(ctx, "inner_calls", []))
    return {"group": "MultiExp n=%d scalars=%d NbTasks=%d mont=%d NumCPU=%d small=%d" % (n, m, tasks, mont, numcpu, small), "recs": recs, "info": info, "harness": h, "params": params}


def run(tier, seed):
    global PROG, BUILD
    rep = Report("C09", tier, seed)
    BUILD = D.Build("c09", [BS], [BS + ".*"])
    try:
        PROG = BUILD.load()
        stdlib.annotate_used_results(PROG)
    except Exception as e:  # noqa
        rep.inconclusive_group("load", str(e))
        return rep.finish()
    rep.assumptions = ["gnark point operations are the group law (formal linear combinations); Double only occurs in the chunk reduction (formal doubling levels)",
                       "runtime.NumCPU stub; goroutines under the eager schedule; channel receive order FIFO",
                       "MultiExp group: partitionScalars and msmInnerPointProj summarised (uninterpreted partitioned value; positional pairing of the slices actually passed)"]

    def on(a, item):
        rep.add(item["group"], item["recs"], _Info(item["info"]), key_prefix=item["harness"] + item["group"].split()[0],
                replay=std_replay(BUILD, BS, BS + "." + item["harness"], item["params"]))
    inner = [(c, n, s, 1) for c in (4, 5, 6, 7, 8) for (n, s) in ((3, 0), (3, 1), (2, 1), (0, 0), (1, 1))]
    # every other case of the window dispatcher msmInnerPointProj, chunk processor summarised
    inner += [(c, n, s, 1) for c in (9, 10, 11, 12, 13, 14, 15, 16) for (n, s) in ((1, 1), (2, 0))] + [(c, 1, 1, 1) for c in (20, 21, 22)]
    if tier == "quick":
        inner += [(4, 2, 1, 0), (5, 1, 0, 0)]
    else:
        inner += [(c, n, s, 0) for c in (4, 5, 6) for (n, s) in ((1, 0), (2, 1))]
    part = [(c,) for c in (4, 5, 6, 7, 8, 9, 10, 11, 12, 13, 14, 15, 16, 20, 21, 22)]
    me = []
    for n in ([0, 1, 2, 3, 5, 8] if tier == "quick" else [0, 1, 2, 3, 4, 5, 6, 7, 8, 9, 13, 33]):
        for tasks in ([-1, 1, 16, 65, 128] if tier == "quick" else [-1, 0, 1, 2, 3, 16, 33, 64, 65, 128, 300, 1024]):
            me.append((n, n, tasks, 1, 16, 0))
    me += [(3, 2, 1, 1, 16, 0), (2, 3, 16, 0, 16, 0), (0, 1, 1, 1, 16, 0), (5, 5, 65, 0, 16, 3), (5, 5, 0, 1, 1, 0), (5, 5, 0, 1, 64, 5), (9, 9, 0, 0, 128, 0)]
    rep.bounds = {"chunk processing/orchestration": "msmInnerPointProj dispatch and msmC<c> orchestration for every implemented c (4..16, 20, 21, 22) with the chunk processor summarised by its contract; "
                  "msmC4..6 also with real bucket arrays; (c, n, split, summarised) in %s, scalars fully symbolic < r" % inner,
                  "digit partition": "every implemented window width c in %s, all scalars < r, per-chunk closed form" % [p[0] for p in part],
                  "MultiExp": "concrete sizes/configurations %d runs, scalars symbolic" % len(me),
                  "outside": "bucket accumulation for c >= 9; float cost model is executed concretely per configuration, not for all n"}
    global setup_partition
    run_jobs(rep, job_inner, inner, name=lambda a: "msmC%d n=%d split=%d summary=%d" % a, on_result=on)
    run_jobs(rep, job_partition_w, part, name=lambda a: "partition c=%d" % a, on_result=on)
    many = [(5, 2, 16, 8), (3, 4, 2, 5), (7, 3, 3, 16), (4, 1, 16, 4), (0, 2, 16, 8)]
    run_jobs(rep, job_many, many, name=lambda a: "partition fan-out %s" % (a,), on_result=on)
    run_jobs(rep, job_multiexp, me, name=lambda a: "MultiExp %s" % (a,), on_result=on)
    return rep.finish(explanation="bandersnatch.MultiExp, partitionScalars, msmC4..8 and the chunk processor executed from SSA in the group domain G.")


def job_partition_w(c):
    global setup_partition
    old = setup_partition
    try:
        return _job_partition(c)
    finally:
        setup_partition = old


def _job_partition(c):
    h = "VerifC09Chunk"
    params = {"c": c, "chunk": 0, "buckets": 1}
    ctx, ex = D.execute(PROG, BS + "." + h, intmode="bv", params=params, setup=setup_partition2, harness_pkgs=[BS], unwind=100000, prune=False)
    return _partition_obligations(ctx, ex, c, h, params)


def _partition_obligations(ctx, ex, c, h, params):
    S = sval(ctx, 0)
    ctx.add_fact(z3.ULT(S, z3.BitVecVal(Q, 256)))
    ps = ctx.partitioned
    P = z3.Concat(*[l if is_term(l) else z3.BitVecVal(l, 64) for l in reversed(ps)])
    nb = nchunks(c)
    msb = 1 << (c - 1)
    obs = []
    for k in range(nb):
        d, T = digit_spec(S, c, k)
        hi = min(c * k + c - 1, 255)
        bits = z3.Extract(hi, c * k, P)
        bits = z3.ZeroExt(64 - bits.size(), bits)
        dec = z3.If(bits & msb == 0, bits, -((bits & ~z3.BitVecVal(msb, 64)) + 1))
        obs.append(ob("chunk %d: stored window decodes (as the chunk processor reads it) to the closed-form signed digit" % k, dec != d))
    d, T = digit_spec(S, c, 0)
    obs.append(ob("no carry out of the top chunk", z3.Extract(319, c * nb, T) != 0))
    obs.append(ob("partitioned words stay below 2^254 (top chunk window small enough for the reduced bucket array)", b_not(z3.ULT(P, z3.BitVecVal(1 << 254, 256)))))
    small = [v for (l, g, v) in ctx.notes if l == "small"][0]
    exp = z3.If(z3.And(S != 0, z3.ULT(S, z3.BitVecVal(1 << c, 256))), z3.BitVecVal(1, 64), z3.BitVecVal(0, 64))
    obs.append(ob("smallValues counts exactly the scalars 0 < s < 2^c", (small if is_term(small) else z3.BitVecVal(small, 64)) != exp))
    recs = D.discharge_all(ctx, extra=obs, timeout_ms=300000)
    return {"group": "partitionScalars c=%d" % c, "recs": recs, "info": ctx_info(ctx), "harness": h, "params": params}


def setup_many(ex):
    setup_partition(ex)
    ex.intrinsics["runtime.NumCPU"] = lambda ex_, args, ins: (ex_.ctx.params.get("numcpu", 16),)


def job_many(n, tasks, numcpu, c):
    h = "VerifC09PartitionMany"
    params = {"n": n, "tasks": tasks, "numcpu": numcpu, "c": c}
    ctx, ex = D.execute(PROG, BS + "." + h, intmode="bv", params=params, setup=setup_many, harness_pkgs=[BS], unwind=100000, prune=False)
    obs = []
    ln = [v for (l, g, v) in ctx.notes if l == "len"][0]
    obs.append(ob("one partitioned scalar per input scalar", ln != n))
    small = [v for (l, g, v) in ctx.notes if l == "small"][0]
    exp = z3.BitVecVal(0, 64)
    for i in range(n):
        s0 = ctx.vars["s0" if i == 0 else "s0#%d" % i][0]
        exp = exp + z3.If(z3.And(s0 != 0, z3.ULT(s0, z3.BitVecVal(1 << c, 64))), z3.BitVecVal(1, 64), z3.BitVecVal(0, 64))
    obs.append(ob("smallValues is the number of scalars with 0 < s < 2^c, summed over all worker tasks", (small if is_term(small) else z3.BitVecVal(small, 64)) != exp))
    obs += frame_obligations(ex)
    recs = D.discharge_all(ctx, extra=obs, timeout_ms=120000)
    return {"group": "partitionScalars fan-out n=%d tasks=%d NumCPU=%d c=%d" % (n, tasks, numcpu, c), "recs": recs, "info": ctx_info(ctx), "harness": h, "params": params}


def replay(path):
    d = json.load(open(path))
    build = D.Build("c09", [BS], [BS + ".*"])
    res = native_replay(build, d["pkg"], d["entry"], d["params"], d["values"], tag="manual")
    print(res["output"])
    return 1 if (res["failed"] or res["panics"]) else 0
