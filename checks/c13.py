"""C13 - operations are pure: write monitor (frame obligations) on configuration, package-level values and caller inputs across the API harnesses."""
import itertools
import json
from gosmt import driver as D
from gosmt.check import Report, run_jobs, std_replay, _Info
from checks import mplib as M
from checks import c01


def run(tier, seed):
    rep = Report("C13", tier, seed)
    if not c01.load(rep):
        return rep.finish()
    on = c01.make_on(rep)
    S = c01.index_sets(tier, seed + 2)[0]
    pats = [p for n in (1, 2, 3) for p in itertools.product(S, repeat=n)]
    # openings sharing an index within one worker batch (NumCPU 1,2) are the interesting aliasing cases
    gj = [(zs, cpu, "fifo") for zs in pats for cpu in (1, 2, 16)]
    pj = [(zs, cpu, sh, 0, "fifo") for zs in pats if len(zs) >= 2 for cpu in (1, 2) for sh in ((0, 1) if len(set(zs)) == 1 else (0,))]
    vj = [(zs, 0) for zs in pats]
    rep.bounds = {"multiproof API": "n <= 3 openings over %s: polynomials, indices, claimed values, commitments, proof object, IPAConfig (SRS, Q, weight tables) snapshotted and compared after the call" % (S,),
                  "scalar decoders": "SetBytes / SetBytesLE / SetBytesLECanonical / SetBigInt with inputs of 1, 31, 32, 33, 40 bytes: caller's byte slice and big.Int compared before/after",
                  "other entry points": " transcript label/message buffers (C14), MSM/MultiExp scalar slices (C05, C09), group-operation operands and package-level Generator/Identity (C08) carry the same write-monitor obligations in their own checks",
                  "outside": "stubs are pure as declared; history independence is the inductive consequence (no call changes shared state)"}
    rep.assumptions = ["write monitor: every protected cell equals its snapshot (solver-decided per cell)", "BatchNormalize summarised as value-preserving (C19)"]
    run_jobs(rep, c01.job_grouping, gj, name=lambda a: "grouping %s" % (a,), on_result=on)
    run_jobs(rep, c01.job_prover, pj, name=lambda a: "prover %s" % (a,), on_result=on)
    run_jobs(rep, c01.job_verifier, vj, name=lambda a: "verifier %s" % (a,), on_result=on)
    # transcript buffers and decoders
    from checks import c14
    c14.BUILD = D.Build("c14", [c14.CM], [c14.CM + ".VerifC14Sequence"])
    try:
        c14.PROG = c14.BUILD.load()
        seqs = [s for s in c14.sequences("quick", seed) if len(s[1]) <= 2 or s[0].startswith("rand")][:80]

        def on14(a, item):
            rep.add(item["group"], item["recs"], _Info(item["info"]), key_prefix=item["harness"], sample=False,
                    replay=std_replay(c14.BUILD, c14.CM, c14.CM + "." + item["harness"], item["params"]))
        run_jobs(rep, c14.job, seqs, name=lambda a: a[0], on_result=on14)
    except Exception as e:  # noqa
        rep.inconclusive_group("transcript buffers", str(e)[:300])
    # scalar decoders: caller's byte slice / big.Int unchanged
    from checks import c16
    if c16.load(rep):
        dj = [(h, {"n": n}) for h in ("VerifC16SetBytes", "VerifC16SetBytesLE", "VerifC16SetBytesLECanonical", "VerifC16SetBigInt") for n in (1, 31, 32, 33, 40)]
        c16.run_decoders(rep, dj)
    return rep.finish(explanation="frame conditions on every API harness: after the call every protected cell (configuration, tables, caller slices and pointed-to values) equals its snapshot.")


def replay(path):
    d = json.load(open(path))
    if "VerifC16" in d.get("entry", ""):
        from checks import c16
        return c16.replay(path)
    if "VerifC14" in d.get("entry", ""):
        from checks import c14
        return c14.replay(path)
    return c01.replay(path)
