"""C11 - map-to-scalar-field is a well-defined function on group elements (invariance, x/y, batch = single)."""
import itertools
from gosmt import driver as D
from gosmt.check import Report, run_jobs, std_replay, _Info
from gosmt.field import GNARK_FR
from checks import c07, c19
from checks import ptlib as P


def run(tier, seed):
    rep = c07.run_for("C11", tier, seed)
    c19.BUILD = D.Build("c19", [P.BW], [P.BW + ".VerifC19Batch"], allow_extra=[GNARK_FR, P.GB])
    try:
        c19.PROG = c19.BUILD.load()
        maxn = 3 if tier == "quick" else 4
        lists = [()] + [p for n in range(1, maxn + 1) for p in itertools.product(range(3), repeat=n)]
        jobs = []
        for idx in lists:
            jobs.append((2, idx, 0, 0, "insertion"))
            if idx:
                jobs.append((2, idx, 0, idx[0] + 1, "insertion"))
                jobs.append((2, idx, 0, 0, "insertion", idx[-1] + 1))

        def on(a, item):
            rep.add(item["group"], item["recs"], _Info(item["info"]), key_prefix=item["harness"] + "Map", sample=(len(rep.samples) < 8),
                    replay=std_replay(c19.BUILD, P.BW, P.BW + "." + item["harness"], item["params"]))
        run_jobs(rep, c19.job, jobs, name=lambda a: "BatchMapToScalarField %s" % (a[1:],), on_result=on)
    except Exception as e:  # noqa
        rep.inconclusive_group("batch map", str(e)[:300])
    try:
        from checks import c11bytes
        c11bytes.load()
        from gosmt.check import _Info as _I2

        def on2(a, item):
            rep.add(item["group"], item["recs"], _I2(item["info"]), key_prefix="VerifC11BytesLE", replay=c11bytes.replay_cb)
        run_jobs(rep, c11bytes.job, [()], name=lambda a: "fp.BytesLE", on_result=on2)
    except Exception as e:  # noqa
        rep.inconclusive_group("fp.BytesLE byte layout", str(e)[:300])
    rep.bounds["batch"] = "BatchMapToScalarField on every pointer list of length 0..3 over a 3-element pool, incl. the identity (x = 0) with stale result slots"
    rep.bounds["outside"] = rep.bounds.get("outside", "") + "; the scalar decoder's byte-level behaviour is C16, fp.BytesLE's is the separate byte-layout group of this check (gnark's fromMont summarised as UNMONT modulo p); un-Equal elements have different x/y follows from Equal being exactly the cross-product test (C07)"
    return rep.finish(explanation="MapToScalarField / BatchMapToScalarField executed from SSA on symbolic coordinates: value is IOTA(X/Y), invariant under projective scaling and (-x,-y), batch equals single position by position.")


def replay(path):
    return c07.replay(path)
