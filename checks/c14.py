"""C14 - transcript challenges follow the specified hash chain and bind all messages."""
import itertools
import json
import random
from gosmt import driver as D
from gosmt import stdlib, iohash
from gosmt.iohash import TVal
from gosmt.check import Report, std_replay, native_replay, run_jobs, ctx_info, _Info
from gosmt.exec import Obligation
from gosmt.harness import frame_obligations, _name
from gosmt.values import Unsupported
from checks.frlib import FR

CM = D.MOD + "/common"
BW = D.MOD + "/banderwagon"
EL = FR + ".Element"
PROG = None
BUILD = None


def setup(ex):
    stdlib.install(ex)
    dom = iohash.install_transcript(ex, EL, FR)
    iohash.install_buffer(ex)
    ex.prog.opaque[BW + ".Element"] = dom
    ex.prog._lay.clear()

    def scalar(ex_, args, ins):
        n = _name(ex_, args[0])
        ex_.ctx.vars[n] = (0, 0, False)
        return (TVal(("sym", "scalar:" + n), dom),)
    ex.intrinsics[CM + ".c14scalar"] = scalar

    def point(ex_, args, ins):
        n = _name(ex_, args[0])
        ex_.ctx.vars[n] = (0, 0, False)
        return (TVal(("sym", "point:" + n), dom),)
    ex.intrinsics[CM + ".c14point"] = point
    ex.intrinsics["(%s.Element).Bytes" % BW] = lambda ex_, args, ins: (tuple(("pb", args[0].v, i) for i in range(32)),)


def params_of(seq, proto=5):
    p = {"n": len(seq), "protolen": proto}
    for i, (op, ll, ml) in enumerate(seq):
        c = chr(ord('a') + i)
        p["op" + c] = op
        p["ll" + c] = ll
        p["ml" + c] = ml
    return p


def job(name, seq, proto):
    h = "VerifC14Sequence"
    params = params_of(seq, proto)
    ctx, ex = D.execute(PROG, CM + "." + h, intmode="bv", params=params, setup=setup, harness_pkgs=[CM], unwind=100000, prune=False)
    recs = D.discharge_all(ctx, extra=frame_obligations(ex), timeout_ms=60000)
    info = ctx_info(ctx)
    info["hash_writes"] = getattr(ctx, "hash_writes", 0)
    return {"group": "sequence " + name, "recs": recs, "info": info, "harness": h, "params": params}


def sequences(tier, seed):
    out = []
    ops = range(5)
    L = 3 if tier == "quick" else 4
    for n in range(0, L + 1):
        for s in itertools.product(ops, repeat=n):
            out.append(("".join("DMSPC"[o] for o in s) or "(empty)", [(o, 1, 2) for o in s], 5))
    rng = random.Random(seed)
    lens = [0, 1, 31, 32, 33]
    for k in range(40 if tier == "quick" else 200):
        n = rng.randrange(1, 7 if tier == "quick" else 11)
        s = [(rng.randrange(5), rng.choice(lens), rng.choice(lens)) for _ in range(n)]
        out.append(("rand%d:" % k + "".join("DMSPC"[o] for o, _, _ in s), s, rng.choice([0, 1, 10])))
    # more than 1024 pending bytes between challenges; empty and very long messages
    out.append(("40 scalars then challenge", [(2, 1, 0)] * 40 + [(4, 1, 0)], 5))
    out.append(("20 points+scalars, two challenges", [(3, 1, 0), (2, 1, 0)] * 20 + [(4, 1, 0), (4, 1, 0)], 9))
    out.append(("1100-byte message", [(1, 3, 1100), (4, 1, 0), (1, 0, 0), (4, 0, 0)], 5))
    out.append(("empty message with label, empty label", [(1, 4, 0), (1, 0, 3), (0, 0, 0), (4, 2, 0)], 0))
    return out


def run(tier, seed):
    global PROG, BUILD
    rep = Report("C14", tier, seed)
    BUILD = D.Build("c14", [CM], [CM + ".VerifC14Sequence"])
    try:
        PROG = BUILD.load()
    except Exception as e:  # noqa
        rep.inconclusive_group("load", str(e))
        return rep.finish()
    seqs = sequences(tier, seed)
    rep.bounds = {"operation sequences": "all sequences of length <= %d over {DomainSep, AppendMessage, AppendScalar, AppendPoint, ChallengeScalar} plus %d seeded longer ones (length <= %d), each followed by a final challenge" % (3 if tier == "quick" else 4, 40 if tier == "quick" else 200, 6 if tier == "quick" else 10),
                  "contents": "all label/message bytes, scalars and points symbolic; lengths from {0,1,2,31,32,33,1100}; pending buffer beyond 1024 bytes covered",
                  "outside": "SHA-256 itself (uninterpreted: two digests are equal iff the hashed byte strings are); sequences longer than the listed ones"}
    rep.assumptions = ["hash.Hash: Write appends, Sum(nil) is an uninterpreted function of the written bytes, Reset empties", "bytes.Buffer stub",
                       "BytesLE / SetBytesLE / Element.Bytes by contract (C16, C07): 32 bytes determined by the value"]

    def on(a, item):
        rep.add(item["group"], item["recs"], _Info(item["info"]), key_prefix=item["harness"], sample=(len(rep.samples) < 6),
                replay=std_replay(BUILD, CM, CM + "." + item["harness"], item["params"]))
    run_jobs(rep, job, seqs, name=lambda a: a[0], on_result=on)
    return rep.finish(explanation="common/transcript.go executed from SSA against the specification written in the harness; the solver decides equality of the hashed byte strings.")


def replay(path):
    d = json.load(open(path))
    build = D.Build("c14", [CM], [CM + ".VerifC14Sequence"])
    res = native_replay(build, d["pkg"], d["entry"], d["params"], d["values"], tag="manual")
    print(res["output"])
    return 1 if (res["failed"] or res["panics"]) else 0
