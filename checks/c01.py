"""C01 - multiproof completeness: grouping, prover bookkeeping and verifier bookkeeping against the specification."""
import itertools
import json
import z3
from gosmt import driver as D
from gosmt import tlog
from gosmt.check import Report, std_replay, native_replay, run_jobs, ctx_info, _Info
from gosmt.harness import frame_obligations
from gosmt.values import Unsupported, Ptr, is_term, b_and, b_not, b_term
from checks import mplib as M
from checks.mplib import ob, obi, ROOT, EL, N

LABELS = ["labelC", "labelZ", "labelY", "labelD", "labelE", "labelT", "labelR", "labelDomainSep"]


def lab(name):
    j = M.GLOBALS[ROOT + "." + name]
    return bytes(int(x) for x in j["slice"])


def params_of(zs, **kw):
    p = {"n": len(zs)}
    for i, z in enumerate(zs):
        p["z%d" % i] = z
    p.update(kw)
    return p


def load_frs(ex, s):
    return [ex.load(Ptr(s.ptr.obj, s.ptr.off + i, s.ptr.sym), EL) for i in range(s.len)]


# ---------------------------------------------------------------- O1 grouping
def job_grouping(zs, numcpu, order):
    h = "VerifC01Grouping"
    params = params_of(zs, numcpu=numcpu)
    params["recv_order"] = order
    ctx, ex = D.execute(M.PROG, ROOT + "." + h, intmode="bv", params=params, setup=M.setup_mp, harness_pkgs=[ROOT], globals_init=M.GLOBALS, unwind=100000, prune=False)
    n = len(zs)
    grouped = [v for (l, g, v) in ctx.notes if l == "grouped"][0]
    fs = M.fvars(ctx, n, zs)
    # powers are created after each polynomial: names r, r#1, ... ; polynomials f.. interleaved: recompute names by order of creation
    rs = [ctx.vars["r" if i == 0 else "r#%d" % i][0] for i in range(n)]
    obs = []
    for z in range(N):
        sl = grouped[z]
        users = [i for i in range(n) if zs[i] == z]
        cs = M.cases_of(sl)
        if len(cs) != 1:
            raise Unsupported("guarded group slice")
        s = cs[0][1]
        if not users:
            obs.append(ob("index %d: no group when no opening uses it" % z, not (s.ptr is None or s.len == 0)))
            continue
        if s.ptr is None or s.len != N:
            obs.append(ob("index %d: group of 256 evaluations exists" % z, True))
            continue
        vals = load_frs(ex, s)
        for j in range(N):
            want = z3.Sum([rs[i] * fs[i][j] for i in users]) if len(users) > 1 else rs[users[0]] * fs[users[0]][j]
            obs.append(obi("index %d coordinate %d: sum over the openings at that index of r^i * f_i" % (z, j), vals[j].t, want))
    obs += frame_obligations(ex)
    recs = D.discharge_all(ctx, extra=obs, timeout_ms=60000)
    params.pop("recv_order")
    return {"group": "grouping zs=%s NumCPU=%d order=%s" % (list(zs), numcpu, order), "recs": recs, "info": ctx_info(ctx), "harness": h, "params": params, "cpus": numcpu}


# ---------------------------------------------------------------- O2 prover
def job_prover(zs, numcpu, share, zeroy, order="fifo"):
    h = "VerifC01Prover"
    params = params_of(zs, numcpu=numcpu, share=share, zeroy=zeroy)
    params["recv_order"] = order
    ctx, ex = D.execute(M.PROG, ROOT + "." + h, intmode="bv", params=params, setup=M.setup_mp, harness_pkgs=[ROOT], globals_init=M.GLOBALS, unwind=100000, prune=False)
    params.pop("recv_order")
    n = len(zs)
    gd = ctx.gd
    obs = []
    err = [v for (l, g, v) in ctx.notes if l == "err"][0]
    obs.append(ob("no error for a well-formed opening set", err is not False))
    calls = ctx.calls.get("CreateIPAProof", [])
    if len(calls) != 1:
        obs.append(ob("the IPA prover is invoked exactly once", True))
    else:
        c = calls[0]
        log = c["log"]
        r, t = M.chal(log, lab("labelR")), M.chal(log, lab("labelT"))
        if r is None or t is None:
            obs.append(ob("challenges r and t are drawn before the IPA", True))
        else:
            fs = M.fvars(ctx, n, zs, zeroy, bool(share))
            cname = ["C0" if (share and i > 0) else "C%d" % i for i in range(n)]
            from gosmt.field import FVal
            from gosmt.group import GVal
            dom = ctx.fdom
            want = [("new", b"vt"), ("sep", lab("labelDomainSep"))]
            for i in range(n):
                want += [("point", lab("labelC"), gd.gen(cname[i])), ("scalar", lab("labelZ"), FVal(z3.RealVal(zs[i]), dom)),
                         ("scalar", lab("labelY"), FVal(fs[i][zs[i]], dom))]
            want += [("challenge", lab("labelR"), FVal(r, dom))]
            # reference prover straight from the specification: no grouping
            g = [z3.RealVal(0)] * N
            hh = [z3.RealVal(0)] * N
            rp = z3.RealVal(1)
            for i in range(n):
                q = M.quotient_ref(fs[i], zs[i])
                g = [g[j] + rp * q[j] for j in range(N)]
                hh = [hh[j] + rp * fs[i][j] / (t - zs[i]) for j in range(N)]
                rp = rp * r
            Dref = GVal({"G%d" % j: g[j] for j in range(N)}, gd)
            Eref = GVal({"G%d" % j: hh[j] for j in range(N)}, gd)
            want += [("point", lab("labelD"), Dref), ("challenge", lab("labelT"), FVal(t, dom)), ("point", lab("labelE"), Eref)]
            # D / E are compared coefficient-wise below; the log comparison checks order and labels
            if len(log) != len(want):
                obs.append(ob("prover transcript absorbs exactly the specified sequence (%d items, expected %d)" % (len(log), len(want)), True))
            else:
                for k, (a, b) in enumerate(zip(log, want)):
                    if a[0] == "point" and b[0] == "point" and a[1] == b[1] and b[1] in (lab("labelD"), lab("labelE")):
                        obs += M.coeff_obligations("prover: %s absorbed under label %r" % ("D" if b[1] == lab("labelD") else "E", b[1]), a[2], b[2].coeffs, gd)
                    else:
                        s = tlog.item_same(ex, a, b)
                        obs.append(ob("prover transcript item %d is %s under label %r" % (k, b[0], b[1]), b_not(s)))
            obs += M.coeff_obligations("IPA commitment = E - D", c["commitment"], {"G%d" % j: hh[j] - g[j] for j in range(N)}, gd)
            for j in range(N):
                obs.append(obi("IPA polynomial coordinate %d = h - g" % j, c["a"][j].t, hh[j] - g[j]) if len(c["a"]) == N else ob("IPA polynomial has 256 coordinates", True))
            obs.append(obi("IPA evaluation point is t", c["point"].t, t))
            dn = [v for (l, gg, v) in ctx.notes if l == "D"]
            if dn:
                obs += M.coeff_obligations("returned proof.D", dn[0][0], Dref.coeffs, gd)
    obs += frame_obligations(ex)
    recs = D.discharge_all(ctx, extra=obs, timeout_ms=120000)
    info = ctx_info(ctx)
    info["nonzero_assumptions"] = len(ctx.fdom.nonzero_assumptions)
    return {"group": "prover zs=%s NumCPU=%d share=%d zeroy=%d order=%s" % (list(zs), numcpu, share, zeroy, order), "recs": recs, "info": info, "harness": h, "params": params, "cpus": numcpu}


# ---------------------------------------------------------------- O3 verifier
def job_verifier(zs, zeroy):
    h = "VerifC01Verifier"
    params = params_of(zs, zeroy=zeroy, numcpu=16, summarise_batchinvert=1)
    ctx, ex = D.execute(M.PROG, ROOT + "." + h, intmode="bv", params=params, setup=M.setup_mp, harness_pkgs=[ROOT], globals_init=M.GLOBALS, unwind=100000, prune=False)
    n = len(zs)
    gd = ctx.gd
    dom = ctx.fdom
    from gosmt.field import FVal
    obs = []
    err = [v for (l, g, v) in ctx.notes if l == "err"][0]
    obs.append(ob("no error for a well-formed statement", err is not False))
    calls = ctx.calls.get("CheckIPAProof", [])
    if len(calls) != 1:
        obs.append(ob("the IPA verifier is invoked exactly once", True))
    else:
        c = calls[0]
        log = c["log"]
        r, t = M.chal(log, lab("labelR")), M.chal(log, lab("labelT"))
        fs = M.fvars(ctx, n, zs, zeroy, False)
        ys = [fs[i][zs[i]] for i in range(n)]
        want = [("new", b"vt"), ("sep", lab("labelDomainSep"))]
        for i in range(n):
            want += [("point", lab("labelC"), gd.gen("C%d" % i)), ("scalar", lab("labelZ"), FVal(z3.RealVal(zs[i]), dom)), ("scalar", lab("labelY"), FVal(ys[i], dom))]
        if r is None or t is None:
            obs.append(ob("challenges r and t are drawn before the IPA", True))
        else:
            E = {}
            g2 = z3.RealVal(0)
            rp = z3.RealVal(1)
            for i in range(n):
                E["C%d" % i] = E.get("C%d" % i, 0) + rp / (t - zs[i])
                g2 = g2 + rp * ys[i] / (t - zs[i])
                rp = rp * r
            from gosmt.group import GVal
            want += [("challenge", lab("labelR"), FVal(r, dom)), ("point", lab("labelD"), gd.gen("D")), ("challenge", lab("labelT"), FVal(t, dom)),
                     ("point", lab("labelE"), GVal(E, gd))]
            if len(log) != len(want):
                obs.append(ob("verifier transcript absorbs exactly the specified sequence (%d items, expected %d)" % (len(log), len(want)), True))
            else:
                for k, (a, b) in enumerate(zip(log, want)):
                    if a[0] == "point" and b[0] == "point" and a[1] == b[1] == lab("labelE"):
                        obs += M.coeff_obligations("verifier: E = sum C_i r^i/(t-z_i)", a[2], E, gd)
                    else:
                        obs.append(ob("verifier transcript item %d is %s under label %r" % (k, b[0], b[1]), b_not(tlog.item_same(ex, a, b))))
            wantc = dict(E)
            wantc["D"] = z3.RealVal(-1)
            obs += M.coeff_obligations("IPA commitment = E - D", c["commitment"], wantc, gd)
            obs.append(obi("IPA evaluation point is t", c["point"].t, t))
            obs.append(obi("IPA claimed value is g_2(t) = sum r^i y_i/(t-z_i)", c["result"].t, g2))
        okn = [v for (l, g, v) in ctx.notes if l == "ok"][0]
        obs.append(ob("the verdict is the IPA verifier's verdict", b_term(okn) != z3.Bool("ipa_ok") if is_term(okn) else True))
    obs += frame_obligations(ex)
    recs = D.discharge_all(ctx, extra=obs, timeout_ms=120000)
    return {"group": "verifier zs=%s zeroy=%d" % (list(zs), zeroy), "recs": recs, "info": ctx_info(ctx), "harness": h, "params": params, "cpus": None}


def load(rep):
    M.BUILD = D.Build("c01", [ROOT], [ROOT + ".VerifC01Grouping", ROOT + ".VerifC01Prover", ROOT + ".VerifC01Verifier"])
    try:
        M.PROG = M.BUILD.load()
        M.GLOBALS = M.BUILD.dump_globals({ROOT: LABELS})
        return True
    except Exception as e:  # noqa
        rep.inconclusive_group("load", str(e))
        return False


def real_to_mod(v):
    from checks.frlib import Q
    if isinstance(v, str) and "/" in v:
        a, b = v.split("/")
        return int(a) * pow(int(b), -1, Q) % Q
    if isinstance(v, bool):
        return v
    return int(v) % Q


def make_on(rep):
    def on(a, item):
        inner = std_replay(M.BUILD, ROOT, ROOT + "." + item["harness"], item["params"], cpus=item.get("cpus"))

        def cb(rec):
            m = {k: real_to_mod(v) for k, v in (rec.get("model") or {}).items()}
            # unconstrained polynomial entries default to distinct small values natively
            r2 = dict(rec)
            r2["model"] = m
            return inner(r2)
        rep.add(item["group"], item["recs"], _Info(item["info"]), key_prefix=item["harness"], sample=(len(rep.samples) < 8), replay=cb)
    return on


def index_sets(tier, seed):
    s = (seed * 53 + 11) % 254 + 1
    sets = [(0, 255, s)]
    if tier == "thorough":
        sets += [(1, 2, 3), (127, 128, 254), (0, 1, 255)]
    return sets


def run(tier, seed):
    rep = Report("C01", tier, seed)
    if not load(rep):
        return rep.finish()
    on = make_on(rep)
    gj, pj, vj = [], [], []
    for S in index_sets(tier, seed):
        pats = [p for n in (1, 2, 3) for p in itertools.product(S, repeat=n)]
        for zs in pats:
            for cpu in ([1, 2, 3, 16] if tier == "quick" else [1, 2, 3, 4, 5, 8, 16]):
                for order in ("fifo", "lifo"):
                    if cpu == 16 and order == "lifo" and tier == "quick":
                        continue
                    gj.append((zs, cpu, order))
        for zs in pats:
            if tier == "quick" and len(zs) == 3 and len(set(zs)) == 3 and zs != tuple(S):
                continue
            for cpu in ([1, 2, 16] if tier == "quick" else [1, 2, 3, 4, 16]):
                pj.append((zs, cpu, 0, 0))
            pj.append((zs, 2, 0, (1 << len(zs)) - 1))
            if len(zs) > 1 and len(set(zs)) == 1:
                pj.append((zs, 2, 1, 0))
            vj.append((zs, 0))
            vj.append((zs, 1))
            if len(zs) > 1:
                vj.append((zs, (1 << len(zs)) - 1))
    rep.bounds = {"openings": "n in {1,2,3}, evaluation indices over the set(s) %s (every pattern incl. repeats)" % index_sets(tier, seed),
                  "polynomials": "fully symbolic (n*256 field symbols), optional literal zero at the opened index, optional shared commitment/polynomial pointers",
                  "NumCPU": "1,2,3,16 (thorough 1..5,8,16); channel arrival order fifo and lifo", "runs": {"grouping": len(gj), "prover": len(pj), "verifier": len(vj)},
                  "outside": "n > 3; IPA completeness (8 folding rounds) and (h-g)(t) = g_2(t) composed on paper; real SHA-256 and curve arithmetic (exercised by the native replay harness)"}
    rep.assumptions = ["field operations by their C15 contracts (rational-function identities, recorded denominators t - z != 0: t is a hash output)",
                       "Commit / MultiScalar are linear maps on generator symbols (C05, C09); BatchNormalize value-preserving (C19); transcript = absorb log with challenges as symbols of the absorbed history (C14)",
                       "weight tables by definition (C18); CreateIPAProof / CheckIPAProof summarised (arguments recorded)",
                       "verifier group: fr.BatchInvert over the 256 denominators summarised by its contract (element-wise inverse); the prover group executes the real BatchInvert"]
    run_jobs(rep, job_grouping, gj, name=lambda a: "grouping %s" % (a,), on_result=on)
    run_jobs(rep, job_prover, pj, name=lambda a: "prover %s" % (a,), on_result=on)
    run_jobs(rep, job_verifier, vj, name=lambda a: "verifier %s" % (a,), on_result=on)
    return rep.finish(explanation="CreateMultiProof / CheckMultiProof / groupPolynomialsByEvaluationPoint executed from SSA; every transcript item, D, E and every argument handed to the IPA compared with a reference prover/verifier written from the specification.")


def replay(path):
    d = json.load(open(path))
    rep = Report("C01", "quick", 1)
    load(rep)
    res = native_replay(M.BUILD, d["pkg"], d["entry"], d["params"], d["values"], tag="manual")
    print(res["output"])
    return 1 if (res["failed"] or res["panics"]) else 0
