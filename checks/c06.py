"""C06 - untrusted point decoding accepts exactly canonical subgroup encodings (accept set, re-encoding, no panic)."""
import json
import z3
from gosmt import driver as D
from gosmt.check import Report, std_replay, native_replay, run_jobs, ctx_info, _Info
from gosmt.exec import Obligation
from gosmt.field import FVal, GNARK_FR
from gosmt.harness import frame_obligations
from gosmt.stdlib import mk_error
from gosmt.values import Unsupported, Ptr, Slice, Guarded, is_term, b_and, b_or, b_not, b_term, simp_bool
from checks import ptlib as P
from checks.ptlib import BW, BS, FP, GEL, ident, cells_equal

PROG = None
BUILD = None


def ob(label, viol):
    return Obligation(label, viol, "assert")


def setup(ex):
    dom = P.setup_pt(ex)
    ctx = ex.ctx
    I = ex.intrinsics
    A = dom.sym("A", nonzero=True, ctx=ctx)
    Dc = dom.sym("D", nonzero=True, ctx=ctx)
    ctx.A, ctx.D = A, Dc
    from checks.c17 import setup_point  # reuse the CurveParams construction
    # CurveParams override (only A and D are read)

    def curve(ex_, tid):
        p = ex_.prog
        d = p.under(tid)
        inner = d["elem"] if d["kind"] == "pointer" else tid
        cells = []
        for f in p.under(inner)["fields"]:
            if f["name"] == "A":
                cells += [A]
            elif f["name"] == "D":
                cells += [Dc]
            else:
                cells += [ex_.zero_leaf(t) for t in p.layout(f["type"])]
        obj = ex_.alloc(inner, label="CurveParams", cells=cells)
        return ex_.alloc(tid, label="CurveParams ptr", cells=[obj]) if d["kind"] == "pointer" else obj
    ex.global_override[BS + ".CurveParams"] = curve

    def base(ex_, args, ins):
        return ((dom.sym("oldX"), dom.sym("oldY"), dom.sym("oldZ")),)
    I[BW + ".c07base"] = base
    ctx.decoded = []

    def decode(ex_, z, cells, canonical_required):
        k = len(ex_.ctx.decoded)
        X = dom.sym("x%d" % k)
        canon = z3.Bool("canonical_%d" % k)
        ex_.ctx.decoded.append((X, canon, cells))
        ex_.ctx.dec_bytes.append((X.t, cells))     # enc(X) = cells holds when canonical (used only on accepting paths that required it)
        ex_.store_to(z, X, GEL)
        return X, canon

    def setbytescanonical(ex_, args, ins):
        z, buf = args
        n = buf.len
        if n != 32:
            return (mk_error("invalid fr.Element encoding"),)
        cells = [ex_.load(Ptr(buf.ptr.obj, buf.ptr.off + i, buf.ptr.sym), "uint8") for i in range(n)]
        X, canon = decode(ex_, z, cells, True)
        return (Guarded([(canon, None), (z3.Not(canon), mk_error("not canonical"))]),)
    I["(*%s).SetBytesCanonical" % GEL] = setbytescanonical

    def hook(ex_, z, cells):
        decode(ex_, z, cells, False)
        return (z,)
    ctx.fp_setbytes_hook = hook

    def sqrt(ex_, args, ins):
        v = ex_.load(args[0], GEL)
        k = len(ex_.ctx.__dict__.setdefault("sqrt_calls", []))
        isres = z3.Bool("rhs_is_square_%d" % k)
        s = dom.sym("S%d" % k, nonzero=True, ctx=ex_.ctx)
        ex_.ctx.sqrt_calls.append((v, isres, s))
        p = ex_.alloc(GEL, label="sqrt result", cells=[s])
        return (Guarded([(isres, p), (z3.Not(isres), None)]),)
    I[FP + ".SqrtPrecomp"] = sqrt

    def legendre(ex_, args, ins):
        v = ex_.load(args[0], GEL)
        k = len(ex_.ctx.__dict__.setdefault("leg_calls", []))
        l = z3.BitVec("legendre_%d" % k, 64)
        ex_.ctx.add_fact(z3.Or(l == 1, l == 0, l == -1))
        ex_.ctx.leg_calls.append((v, l))
        return (l,)
    I["(*%s).Legendre" % GEL] = legendre

    # encodings of computed values: fresh byte variables per field value (comparable with input bytes)
    ctx.enc_vars = []

    def fbytes_val(ex_, v):
        v = FVal(P.resolve_deep(ex_, v.t), dom)
        for (t, cells) in ex_.ctx.dec_bytes:
            if ident(v.t, t) is True:
                return tuple(cells)
        for (t, cells) in ex_.ctx.enc_vars:
            if ident(v.t, t) is True:
                return tuple(cells)
        k = len(ex_.ctx.enc_vars)
        cells = [z3.BitVec("enc%d_%d" % (k, i), 8) for i in range(32)]
        ex_.ctx.enc_vars.append((v.t, cells))
        return tuple(cells)
    I["(%s).Bytes" % GEL] = lambda ex_, args, ins: (fbytes_val(ex_, args[0]),)
    I["(*%s).Bytes" % GEL] = lambda ex_, args, ins: (fbytes_val(ex_, ex_.load(args[0], GEL)),)

    def bytes_equal(ex_, args, ins):
        a, b = args
        ca = [ex_.load(Ptr(a.ptr.obj, a.ptr.off + i, a.ptr.sym), "uint8") for i in range(a.len)]
        cb = [ex_.load(Ptr(b.ptr.obj, b.ptr.off + i, b.ptr.sym), "uint8") for i in range(b.len)]
        return (cells_equal(ca, cb),)
    I["bytes.Equal"] = bytes_equal

    # lexl on the conditional root: distribute over ite
    old = ctx.lexl.apply

    def apply(c, t):
        if z3.is_app_of(t, z3.Z3_OP_ITE):
            return z3.simplify(z3.If(t.arg(0), apply(c, t.arg(1)), apply(c, t.arg(2))))
        return old(c, t)
    ctx.lexl.apply = apply


def job(kind, n):
    h = "VerifC06Compressed" if kind == "c" else "VerifC06Uncompressed"
    params = {"n": n, "alias": 0, "search": 0}
    ctx, ex = D.execute(PROG, BW + "." + h, intmode="bv", params=params, setup=setup, harness_pkgs=[BW], unwind=10000, prune=False)
    g = lambda nm: [(gg, v) for (l, gg, v) in ctx.notes if l == nm]
    obs = []
    ok = g("ok")[0][1]
    need = 32 if kind == "c" else 64
    A, Dc = ctx.A.t, ctx.D.t
    if n != need:
        obs.append(ob("wrong length is rejected", ok is not False))
    else:
        dec = ctx.decoded
        sq = getattr(ctx, "sqrt_calls", [])
        lg = getattr(ctx, "leg_calls", [])
        if not dec:
            obs.append(ob("the x coordinate is decoded from the first 32 bytes", True))
        else:
            X, canon, cells = dec[0]
            inb = [ctx.vars["b[%d]" % i][0] for i in range(32)]
            obs.append(ob("x is decoded from bytes 0..31 of the input", b_not(cells_equal(cells, inb))))
            conds = [canon]
            if len(sq) != 1:
                obs.append(ob("exactly one square root is taken", True))
            else:
                arg, isres, s = sq[0]
                ctx.add_fact(Dc * X.t * X.t - 1 != 0)
                r = ident(arg.t, (A * X.t * X.t - 1) / (Dc * X.t * X.t - 1))
                obs.append(ob("the root is taken of (a x^2 - 1)/(d x^2 - 1) for the decoded x", not (r is True)))
                conds.append(isres)
                # on-curve certificate: a x^2 + y^2 - 1 - d x^2 y^2 with y^2 := rhs is identically zero
                rhs = (A * X.t * X.t - 1) / (Dc * X.t * X.t - 1)
                o = Obligation("decoded (x, y) satisfies the curve equation given y^2 = rhs (cofactor certificate)", (A * X.t * X.t + rhs - 1 - Dc * X.t * X.t * rhs) != 0, "assert")
                o.ident = (A * X.t * X.t + rhs, 1 + Dc * X.t * X.t * rhs)
                obs.append(o)
            if len(lg) != 1:
                obs.append(ob("the subgroup test (Legendre symbol) is evaluated exactly once on the untrusted path", True))
            else:
                larg, l = lg[0]
                r = ident(larg.t, 1 - A * X.t * X.t)
                obs.append(ob("the Legendre symbol is taken of 1 - a x^2 for the decoded x", not (r is True)))
                conds.append(l == 1)
            if kind == "u" and len(sq) == 1:
                # the given y bytes must be the canonical encoding of the recomputed (lexicographically largest) root
                yb = [ctx.vars["b[%d]" % i][0] for i in range(32, 64)]
                arg, isres, s = sq[0]
                ymatch = None
                for (t, cells2) in ctx.enc_vars:
                    ymatch = z3.And([c == b for c, b in zip(cells2, yb)]) if ymatch is None else ymatch
                if ymatch is None:
                    obs.append(ob("the recomputed y is compared with the given y bytes", True))
                else:
                    conds.append(ymatch)
            accept = z3.And(*[b_term(c) for c in conds])
            obs.append(ob("accepted exactly when: canonical x, right-hand side a square, subgroup test passes%s" % (", y bytes equal the recomputed root" if kind == "u" else ""),
                          b_term(ok) != accept))
            for gg, bs in g("bytes"):
                want = inb if kind == "c" else [ctx.vars["b[%d]" % i][0] for i in range(64)]
                obs.append(ob("accepted input re-encodes to exactly the same bytes", b_and(gg, b_not(cells_equal(list(bs), want)))))
            for gg, co in g("coords"):
                cz, cx = P.resolve_deep(ex, co[2].t, gg), P.resolve_deep(ex, co[0].t, gg)
                obs.append(ob("decoded element is normalised (Z = 1) with the decoded x", b_and(gg, not (ident(cz, z3.RealVal(1)) is True and ident(cx, X.t) is True))))
    obs += frame_obligations(ex)
    recs = D.discharge_all(ctx, extra=obs, timeout_ms=60000)
    return {"group": "%s length %d" % ("SetBytes" if kind == "c" else "SetBytesUncompressed(untrusted)", n), "recs": recs, "info": ctx_info(ctx), "harness": h, "params": params, "kind": kind}


def run(tier, seed):
    global PROG, BUILD
    rep = Report("C06", tier, seed)
    BUILD = D.Build("c06", [BW], [BW + ".VerifC06Compressed", BW + ".VerifC06Uncompressed"], allow_extra=[GNARK_FR, P.GB])
    try:
        PROG = BUILD.load()
    except Exception as e:  # noqa
        rep.inconclusive_group("load", str(e))
        return rep.finish()
    lens = [0, 1, 31, 32, 33, 63, 64, 65, 66] if tier == "quick" else list(range(0, 67))
    rep.bounds = {"inputs": "every byte content of each length in %s for both decoders" % (lens if len(lens) < 20 else "0..66"),
                  "outside": "that the Legendre/sqrt conditions characterise membership in the prime-order subgroup (number theory); ReadPoint's use of the validated decoder is C10"}
    rep.assumptions = ["canonical field decoder: ok iff 32 bytes and integer < p (boolean per decode), value = a symbol whose encoding is the input bytes",
                       "reducing decoder SetBytes: value mod p, canonical or not (boolean)", "SqrtPrecomp by its C17 contract; Legendre uninterpreted in {-1,0,1}; sign predicate as in C07",
                       "d x^2 - 1 != 0 (d is a non-square)"]

    def on(a, item):
        inner = std_replay(BUILD, BW, BW + "." + item["harness"], item["params"])

        def cb(rec):
            if item["kind"] == "u" and item["params"]["n"] == 64:
                # the abstract counterexample (non-canonical x accepted) is realised by the x + p alias of the generator
                r2 = dict(rec)
                r2["model"] = {}
                p2 = dict(item["params"], alias=1)
                res = std_replay(BUILD, BW, BW + "." + item["harness"], p2)(r2)
                if res[0]:
                    return res
            if item["params"]["n"] in (32, 64):
                res = inner(rec)
                if res[0]:
                    return res
                # accept-set counterexamples about the subgroup test are realised by a concrete curve point outside the subgroup
                r2 = dict(rec)
                r2["model"] = {}
                return std_replay(BUILD, BW, BW + "." + item["harness"], dict(item["params"], search=1))(r2)
            return inner(rec)
        rep.add(item["group"], item["recs"], _Info(item["info"]), key_prefix=item["harness"], replay=cb)
    run_jobs(rep, job, [(k, n) for k in ("c", "u") for n in lens], name=lambda a: "%s %d" % a, on_result=on)
    return rep.finish(explanation="banderwagon.setBytes / SetBytesUncompressed / subgroupCheck and bandersnatch.GetPointFromX/computeY executed from SSA over symbolic input bytes.")


def replay(path):
    d = json.load(open(path))
    build = D.Build("c06", [BW], [BW + ".VerifC06Compressed", BW + ".VerifC06Uncompressed"])
    res = native_replay(build, d["pkg"], d["entry"], d["params"], d["values"], tag="manual")
    print(res["output"])
    return 1 if (res["failed"] or res["panics"]) else 0
