"""entry point: python3-vt -m checks.run <ID> quick|thorough"""
import importlib
import os
import sys

sys.path.insert(0, os.path.dirname(os.path.dirname(os.path.abspath(__file__))))


def main():
    pid = sys.argv[1]
    tier = sys.argv[2] if len(sys.argv) > 2 else os.environ.get("VERIF_TIER", "quick")
    seed = int(os.environ.get("VERIF_SEED", "1"))
    if tier == "thorough":
        os.environ.setdefault("VERIF_XCHECK", "1")
    # one work directory per check and tier: checks may run side by side (C12/C13 reuse other checks' harness builds)
    os.environ.setdefault("VERIF_RUN_ID", "%s_%s" % (pid, "replay" if tier == "--replay" else tier))
    mod = importlib.import_module("checks." + pid.lower())
    if len(sys.argv) > 3 and sys.argv[2] == "--replay":
        sys.exit(mod.replay(sys.argv[3]))
    sys.exit(mod.run(tier, seed))


if __name__ == "__main__":
    main()
