"""Point-level algebra of banderwagon/element.go in the rational domain A_Q (C06, C07, C11, C19).

Base-field elements (gnark fr.Element) and scalar-field elements are rational functions of the coordinate symbols.
Field-specific predicates are oracles with on-demand congruence: two applications get the same result when the solver
(polynomial normal form) proves their arguments identical; LexicographicallyLargest additionally flips on negation."""
import z3
from gosmt import driver as D
from gosmt import stdlib, field
from gosmt.driver import identity_by_normal_form
from gosmt.field import FVal, GNARK_FR, REPO_FR
from gosmt.exec import Obligation
from gosmt.harness import _name
from gosmt.values import Unsupported, Ptr, Slice, Guarded, is_term, b_and, b_or, b_not, b_term, simp_bool

BW = D.MOD + "/banderwagon"
BS = D.MOD + "/bandersnatch"
FP = D.MOD + "/bandersnatch/fp"
GEL = GNARK_FR + ".Element"
REL = REPO_FR + ".Element"
GB = "github.com/consensys/gnark-crypto/ecc/bls12-381/bandersnatch"


def ident(a, b):
    """True / False / None: a and b identical as rational functions"""
    if a.eq(b):
        return True
    r, w = identity_by_normal_form(a, b, None)
    if r is True:
        return True
    return None


def resolve(ex, t, guard=None):
    """strip conditionals that are decided by the current path condition"""
    g = ex.guard if guard is None else guard
    s = ex.ctx.solver
    n = 0
    while z3.is_app_of(t, z3.Z3_OP_ITE) and n < 64:
        n += 1
        c = t.arg(0)
        s.push()
        if g is not True:
            s.add(b_term(g))
        s.add(z3.Not(c))
        r1 = s.check()
        s.pop()
        if r1 == z3.unsat:
            t = t.arg(1)
            continue
        s.push()
        if g is not True:
            s.add(b_term(g))
        s.add(c)
        r2 = s.check()
        s.pop()
        if r2 == z3.unsat:
            t = t.arg(2)
            continue
        break
    return t


def resolve_deep(ex, t, guard=None, memo=None, dec=None):
    """resolve every conditional inside an arithmetic term under the path condition"""
    g = ex.guard if guard is None else guard
    memo = {} if memo is None else memo
    dec = {} if dec is None else dec
    k = t.get_id()
    if k in memo:
        return memo[k]
    if z3.is_app_of(t, z3.Z3_OP_ITE):
        c = t.arg(0)
        ck = c.get_id()
        if ck not in dec:
            s = ex.ctx.solver
            s.push()
            if g is not True:
                s.add(b_term(g))
            s.add(z3.Not(c))
            r1 = s.check()
            s.pop()
            if r1 == z3.unsat:
                dec[ck] = True
            else:
                s.push()
                if g is not True:
                    s.add(b_term(g))
                s.add(c)
                r2 = s.check()
                s.pop()
                dec[ck] = False if r2 == z3.unsat else None
        d = dec[ck]
        if d is True:
            r = resolve_deep(ex, t.arg(1), g, memo, dec)
        elif d is False:
            r = resolve_deep(ex, t.arg(2), g, memo, dec)
        else:
            r = z3.If(c, resolve_deep(ex, t.arg(1), g, memo, dec), resolve_deep(ex, t.arg(2), g, memo, dec))
    elif t.num_args() == 0 or not z3.is_real(t):
        r = t
    else:
        ch = [resolve_deep(ex, x, g, memo, dec) for x in t.children()]
        r = t.decl()(*ch)
    memo[k] = r
    return r


class Oracle:
    """uninterpreted predicate / function with congruence established by identity checks"""

    def __init__(self, name, sort, neg_flips=False):
        self.name = name
        self.sort = sort
        self.apps = []
        self.neg_flips = neg_flips

    def apply(self, ctx, t):
        for (t2, r2) in self.apps:
            if ident(t, t2) is True:
                return r2
            if self.neg_flips and ident(t, -t2) is True:
                ctx.add_fact(t2 != 0)
                ctx.fdom.nonzero_assumptions.append(t2)
                return z3.Not(r2)
        k = len(self.apps)
        r = z3.Bool("%s_%d" % (self.name, k)) if self.sort == "bool" else z3.Real("%s_%d" % (self.name, k))
        self.apps.append((t, r))
        return r


def eb_equal(x, y):
    """equality of two encoding bytes ('eb'|'le', term, i)"""
    if x[0] != y[0] or x[2] != y[2]:
        return False
    r = ident(x[1], y[1])
    if r is True:
        return True
    return simp_bool(x[1] == y[1])


def cells_equal(a, b):
    if len(a) != len(b):
        return False
    r = True
    for x, y in zip(a, b):
        if isinstance(x, tuple) and isinstance(y, tuple):
            e = eb_equal(x, y)
        elif isinstance(x, tuple) or isinstance(y, tuple):
            return False
        else:
            e = simp_bool((x if is_term(x) else z3.BitVecVal(x, 8)) == (y if is_term(y) else z3.BitVecVal(y, 8))) if (is_term(x) or is_term(y)) else (x == y)
        if e is False:
            return False
        r = b_and(r, e)
    return r


def setup_pt(ex):
    stdlib.install(ex)
    dom = field.install_real(ex, types=("gnark", "repo"))
    ctx = ex.ctx
    ctx.lexl = Oracle("LEXL", "bool", neg_flips=True)
    ctx.iota = Oracle("IOTA", "real")
    ctx.legendre_sq = Oracle("ISSQUARE", "bool")
    ctx.dec_bytes = []       # (term, cells): field values decoded from canonical input bytes
    I = ex.intrinsics
    I["runtime.NumCPU"] = lambda ex_, args, ins: (ex_.ctx.params.get("numcpu", 4),)
    pre = "(*%s)." % GEL

    def isone(ex_, args, ins):
        v = ex_.load(args[0], GEL)
        s = z3.simplify(v.t)
        if z3.is_rational_value(s):
            return (s.numerator_as_long() == s.denominator_as_long(),)
        if ex_.ctx.params.get("fork_isone"):
            # explore both outcomes of the test on a compound value (the special branch is only ever used to look for
            # violations, which must reproduce natively; identities proved on the generic branch hold where t != 1)
            return (simp_bool(v.t == 1),)
        ex_.ctx.add_fact(v.t != 1)
        return (False,)
    I[pre + "IsOne"] = isone

    def equal(T):
        def f(ex_, args, ins):
            a, b = ex_.load(args[0], T), ex_.load(args[1], T)
            r = ident(a.t, b.t)
            if r is True:
                return (True,)
            return (simp_bool(a.t == b.t),)
        return f
    I[pre + "Equal"] = equal(GEL)
    I["(*%s).Equal" % REL] = equal(REL)

    def lexl(ex_, args, ins):
        v = ex_.load(args[0], GEL)
        return (ex_.ctx.lexl.apply(ex_.ctx, v.t),)
    I[pre + "LexicographicallyLargest"] = lexl

    def fbytes(ex_, args, ins):
        v = args[0]
        for (t, cells) in ex_.ctx.dec_bytes:
            if ident(v.t, t) is True:
                return (tuple(cells),)
        return (tuple(("eb", v.t, i) for i in range(32)),)
    I["(%s).Bytes" % GEL] = fbytes
    I[pre + "Bytes"] = lambda ex_, args, ins: fbytes(ex_, [ex_.load(args[0], GEL)], ins)

    def fp_bytesle(ex_, args, ins):
        v = args[0]
        cells = [("le", v.t, i) for i in range(32)]
        p = ex_.alloc("uint8", label="fp.BytesLE", cells=cells, count=32)
        return (Slice(p, 32, 32, "uint8"),)
    I[FP + ".BytesLE"] = fp_bytesle

    def fr_setbytesle(ex_, args, ins):
        z, buf = args
        cells = [ex_.load(Ptr(buf.ptr.obj, buf.ptr.off + i, buf.ptr.sym), "uint8") for i in range(buf.len)]
        if len(cells) == 32 and all(isinstance(c, tuple) and c[0] == "le" and c[2] == i for i, c in enumerate(cells)) and all(c[1].eq(cells[0][1]) for c in cells):
            r = ex_.ctx.iota.apply(ex_.ctx, cells[0][1])
            ex_.store_to(z, FVal(r, dom), REL)
            return (z,)
        raise Unsupported("fr.SetBytesLE on bytes that are not one field element's little-endian encoding")
    I["(*%s).SetBytesLE" % REL] = fr_setbytesle

    def fp_setbytes(ex_, args, ins):
        """reducing decoder on the encoding of a field value: gives the value back"""
        z, buf = args
        cells = [ex_.load(Ptr(buf.ptr.obj, buf.ptr.off + i, buf.ptr.sym), "uint8") for i in range(buf.len)]
        if len(cells) == 32 and all(isinstance(c, tuple) and c[0] == "eb" and c[2] == i for i, c in enumerate(cells)) and all(c[1].eq(cells[0][1]) for c in cells):
            ex_.store_to(z, FVal(cells[0][1], dom), GEL)
            return (z,)
        h = ex_.ctx.__dict__.get("fp_setbytes_hook")
        if h is not None:
            return h(ex_, z, cells)
        raise Unsupported("fp.SetBytes on raw bytes without a decoding model")
    I[pre + "SetBytes"] = fp_setbytes

    def gnark_batchinvert(ex_, args, ins):
        a = args[0]
        vals = [ex_.load(Ptr(a.ptr.obj, a.ptr.off + i, a.ptr.sym), GEL) for i in range(a.len)] if a.len else []
        out = [dom.inv(v, ex_.ctx) for v in vals]
        p = ex_.alloc(GEL, label="gnark BatchInvert result (dependency, by contract)", cells=out, count=len(out))
        return (Slice(p, len(out), len(out), GEL),)
    I[GNARK_FR + ".BatchInvert"] = gnark_batchinvert

    def sym(ex_, args, ins):
        n = _name(ex_, args[0])
        kind = ex_.ctx.params.get("kind_" + n)
        if kind == "zero":
            ex_.ctx.vars[n] = (0, 0, False)
            return (dom.const(0),)
        if kind == "one":
            ex_.ctx.vars[n] = (1, 0, False)
            return (dom.const(1),)
        v = dom.sym("P_" + n.replace("#", "_"), nonzero=(kind == "nonzero"), ctx=ex_.ctx)
        ex_.ctx.vars[n] = (v.t, 0, False)
        return (v,)
    I[BW + ".ptfp"] = sym
    return dom


def real_to_mod(v, p):
    if isinstance(v, str) and "/" in v:
        a, b = v.split("/")
        return int(a) * pow(int(b), -1, p) % p
    if isinstance(v, bool):
        return v
    return int(v) % p
