"""C17 - base-field square root (table-driven dlog in the 2^32 subgroup) and point recovery from x."""
import json
import z3
from gosmt import driver as D
from gosmt import stdlib, field
from gosmt.field import FVal, ExpDom, GNARK_FR
from gosmt.check import Report, std_replay, native_replay, run_jobs, ctx_info, _Info
from gosmt.exec import Obligation
from gosmt.harness import frame_obligations, _name
from gosmt.values import Unsupported, Ptr, Slice, is_term, b_and, b_not, b_term, simp_bool

FP = D.MOD + "/bandersnatch/fp"
BS = D.MOD + "/bandersnatch"
GEL = GNARK_FR + ".Element"
P = 52435875175126190479447740508185965837690552500527637822603658699938581184513
QODD = (P - 1) >> 32
PROG = None
BUILD = None


def ob(label, viol):
    return Obligation(label, viol, "assert")


# ------------------------------------------------------------------ O1: exponent domain
def setup_exp(ex):
    stdlib.install(ex)
    dom = ExpDom()
    field.elem_ops(ex, GEL, dom, GNARK_FR)
    ex.ctx.fdom = dom

    def root(ex_, args, ins):
        n = _name(ex_, args[0])
        e = z3.BitVec(n, 32)
        ex_.ctx.vars[n] = (e, 32, False)
        return (FVal(e, dom),)
    ex.intrinsics[FP + ".c17root"] = root

    def isone(ex_, args, ins):
        v = ex_.load(args[0], GEL)
        return (simp_bool(v.t == 0),)
    ex.intrinsics["(*%s).IsOne" % GEL] = isone

    def negdlog(ex_, args, ins):
        v = ex_.load(args[0], GEL)
        e = v.t
        ex_.ctx.obligations.append(Obligation("dlog LUT is only consulted on elements of order dividing 2^8 (exponent multiple of 2^24)",
                                              b_and(ex_.guard, z3.Extract(23, 0, e) != 0), "assert", ins.get("pos", "") if ins else ""))
        r = (-z3.LShR(e, 24)) & 0xFF
        return (z3.ZeroExt(32, r),)
    ex.intrinsics[FP + ".sqrtAlg_NegDlogInSmallDyadicSubgroup"] = negdlog

    def blocks(ex_, tid):
        def reader(ex2, ptr, t):
            if len(ptr.sym) > 1:
                raise Unsupported("block table pointer shape")
            order, base = divmod(ptr.off, 256)
            if ptr.sym:
                j, stride, cnt = ptr.sym[0]
                if stride != 1 or base != 0:
                    raise Unsupported("block table pointer shape")
                j32 = z3.Extract(31, 0, j) if j.size() > 32 else z3.ZeroExt(32 - j.size(), j)
            else:
                j32 = z3.BitVecVal(base, 32)
            ex2.ctx.table_reads = getattr(ex2.ctx, "table_reads", 0) + 1
            return [FVal(z3.simplify(j32 << (8 * order)), dom)]
        return ex_.alloc_lazy(tid, reader, label="sqrtPrecomp_PrecomputedBlocks (by definition g^(j<<8i))", n=4 * 256)
    ex.global_override[FP + ".sqrtPrecomp_PrecomputedBlocks"] = blocks


def job_dyadic():
    h = "VerifC17Dyadic"
    ctx, ex = D.execute(PROG, FP + "." + h, intmode="bv", params={}, setup=setup_exp, harness_pkgs=[FP], unwind=1000, prune=False)
    e = ctx.vars["e"][0]
    ok = b_term([v for (l, g, v) in ctx.notes if l == "ok"][0])
    w = [v for (l, g, v) in ctx.notes if l == "w"][0]
    obs = [ob("returns false exactly for odd exponents (non-squares of the subgroup)", ok != (z3.Extract(0, 0, e) == 0)),
           ob("on success the result w satisfies w^2 * z = 1 (2w + e = 0 mod 2^32)", z3.And(ok, (w.t + w.t + e) != 0))]
    recs = D.discharge_all(ctx, extra=obs, timeout_ms=300000)
    info = ctx_info(ctx)
    info["table_reads"] = getattr(ctx, "table_reads", 0)
    return {"group": "invSqrtEqDyadic, all 2^32 exponents", "recs": recs, "info": info, "harness": h, "params": {}}


# ------------------------------------------------------------------ O2/O3: power domain x^a * g^e
class PowDom:
    name = "P"

    def const(self, k):
        if k == 1:
            return FVal((0, 0), self)
        if k == 0:
            return FVal("zero", self, "zero")
        raise Unsupported("constant in power domain")

    def zero(self, tid=None):
        return FVal("zero", self, "zero")

    def mul(self, a, b):
        if a.t == "zero" or b.t == "zero":
            return self.zero()
        ea, eb = a.t[1], b.t[1]
        if is_term(ea) or is_term(eb):
            e = (ea if is_term(ea) else z3.BitVecVal(ea, 32)) + (eb if is_term(eb) else z3.BitVecVal(eb, 32))
        else:
            e = (ea + eb) % (1 << 32)
        return FVal((a.t[0] + b.t[0], e), self)

    def square(self, a):
        return self.mul(a, a)

    def add(self, a, b):
        raise Unsupported("addition in the power domain")

    sub = add

    def ite(self, c, a, b):
        if not isinstance(a.t, tuple) or not isinstance(b.t, tuple) or a.t[0] == "ite" or b.t[0] == "ite":
            if a.t == b.t:
                return a
            return FVal(("ite", c, a, b), self)
        if a.t == b.t:
            return a
        if a.t[0] == b.t[0]:
            ea = a.t[1] if is_term(a.t[1]) else z3.BitVecVal(a.t[1], 32)
            eb = b.t[1] if is_term(b.t[1]) else z3.BitVecVal(b.t[1], 32)
            return FVal((a.t[0], z3.If(c, ea, eb)), self)
        return FVal(("ite", c, a, b), self)

    def same(self, ex, a, b):
        if a.t == "zero" or b.t == "zero":
            return a.t == b.t
        if a.t[0] != b.t[0]:
            return False
        if not is_term(a.t[1]) and not is_term(b.t[1]):
            return a.t[1] == b.t[1]
        return simp_bool(a.t[1] == b.t[1])

    equal = same

    def from_dump(self, ex, j, tid):
        return FVal("native", self)

    def is_zero(self, a, ctx):
        return a.t == "zero"


def setup_pow(ex):
    stdlib.install(ex)
    dom = PowDom()
    field.elem_ops(ex, GEL, dom, GNARK_FR)
    ex.intrinsics["(*%s).IsZero" % GEL] = lambda ex_, args, ins: (dom.is_zero(ex_.load(args[0], GEL), ex_.ctx),)
    ex.intrinsics[FP + ".Zero"] = lambda ex_, args, ins: (dom.zero(),)
    ex.ctx.fdom = dom

    def x(ex_, args, ins):
        if ex_.ctx.params.get("zero"):
            return (dom.zero(),)
        return (FVal((1, 0), dom),)
    ex.intrinsics[FP + ".c17x"] = x

    def dyadic(ex_, args, ins):
        # contract of invSqrtEqDyadic established by the exponent-domain group; x^Q = g^E is the number-theoretic step
        v = ex_.load(args[0], GEL)
        if v.t == "zero" or v.t[0] != QODD or not (not is_term(v.t[1]) and v.t[1] == 0):
            ex_.ctx.obligations.append(Obligation("invSqrtEqDyadic is called on x^Q (Q the odd part of p-1)", ex_.guard, "assert"))
            raise Unsupported("dyadic root argument is not x^Q")
        E = z3.BitVec("E", 32)
        w = z3.BitVec("W", 32)
        ok = z3.Extract(0, 0, E) == 0
        ex_.ctx.add_fact(z3.Implies(ok, w + w + E == 0))
        ex_.ctx.E, ex_.ctx.W = E, w
        # on failure the real routine leaves a partially updated value: model as unspecified
        junk = z3.BitVec("junk", 32)
        ex_.store_to(args[0], FVal((0, z3.If(ok, w, junk)), dom), GEL)
        return (ok,)
    ex.ctx.dyadic = dyadic


def job_powers():
    h = "VerifC17Powers"
    ctx, ex = D.execute(PROG, FP + "." + h, intmode="bv", params={}, setup=setup_pow, harness_pkgs=[FP], unwind=1000, prune=False)
    g = lambda n: [v for (l, gg, v) in ctx.notes if l == n][0]
    recs = D.discharge_all(ctx, timeout_ms=60000)

    def rec(label, ok):
        return {"label": label, "kind": "assert", "status": "unsat" if ok else "sat", "time_s": 0, "pos": "", "ok": ok, "verdict": "holds" if ok else "violated", "model": {}}
    recs.append(rec("square-root candidate is x^((Q+1)/2) (addition chain evaluated in the power domain)", g("cand").t == ((QODD + 1) // 2, 0)))
    recs.append(rec("root of unity is x^Q", g("root").t == (QODD, 0)))
    recs.append(rec("input not modified by the addition chain", g("z").t == (1, 0)))
    info = ctx_info(ctx)
    info["field_ops"] = getattr(ctx, "field_ops", 0)
    return {"group": "sqrtAlg_ComputeRelevantPowers exponents", "recs": recs, "info": info, "harness": h, "params": {}}


def job_sqrt(zero):
    h = "VerifC17Sqrt"
    params = {"zero": zero}

    def setup(ex):
        setup_pow(ex)
        ex.intrinsics[FP + ".invSqrtEqDyadic"] = ex.ctx.dyadic
    ctx, ex = D.execute(PROG, FP + "." + h, intmode="bv", params=params, setup=setup, harness_pkgs=[FP], unwind=1000, prune=False)
    g = lambda n: [(gg, v) for (l, gg, v) in ctx.notes if l == n]
    isnil = g("isnil")[0][1]
    obs = []
    xv = g("x")[0][1]
    if zero:
        obs.append(ob("sqrt(0) is not nil", isnil is not False))
        r = g("r")
        obs.append(ob("sqrt(0) = 0", not (r and r[0][1].t == "zero")))
        obs.append(ob("argument not modified", xv.t != "zero"))
    else:
        E, Wv = ctx.E, ctx.W
        ok = z3.Extract(0, 0, E) == 0
        obs.append(ob("nil exactly when the dlog of x^Q is odd (x a non-residue)", b_term(isnil) != z3.Not(ok)))
        r = g("r")
        if not r:
            obs.append(ob("a root is returned on the success path", True))
        else:
            gr, rv = r[0]
            while isinstance(rv.t, tuple) and rv.t[0] == "ite":
                # value merged at the nil / non-nil join: follow the side on which a root is returned
                _, cnd, va, vb = rv.t
                if va.t == "zero":
                    gr, rv = b_and(gr, z3.Not(cnd)), vb
                else:
                    gr, rv = b_and(gr, cnd), va
            a_ok = (rv.t != "zero" and rv.t[0] * 2 == QODD + 1)
            obs.append(ob("returned value is x^((Q+1)/2) times a subgroup element", not a_ok))
            if a_ok:
                obs.append(ob("root^2 = x (2*e + E = 0 mod 2^32 for the subgroup part)", b_and(gr, z3.And(ok, (rv.t[1] + rv.t[1] + E) != 0))))
        obs.append(ob("argument not modified", xv.t != (1, 0)))
    recs = D.discharge_all(ctx, extra=obs, timeout_ms=60000)
    return {"group": "SqrtPrecomp glue (x %s)" % ("= 0" if zero else "!= 0"), "recs": recs, "info": ctx_info(ctx), "harness": h, "params": params}


# ------------------------------------------------------------------ O5: computeY / GetPointFromX
LEXL = z3.Function("LEXL", z3.RealSort(), z3.BoolSort())


def setup_point(ex):
    stdlib.install(ex)
    dom = field.install_real(ex, types=("gnark",))
    A = dom.sym("A", nonzero=True, ctx=ex.ctx)
    Dc = dom.sym("D", nonzero=True, ctx=ex.ctx)

    def curve(ex_, tid):
        # CurveParams: only A and D are read by computeY; other fields are placeholders
        lay = ex_.prog.layout(tid)
        p = ex_.prog
        d = p.under(tid)
        inner = d["elem"] if d["kind"] == "pointer" else tid
        cells = []
        off = 0
        sd = p.under(inner)
        for f in sd["fields"]:
            n = p.ncells(f["type"])
            if f["name"] == "A":
                cells += [A]
            elif f["name"] == "D":
                cells += [Dc]
            else:
                cells += [ex_.zero_leaf(t) for t in p.layout(f["type"])]
        obj = ex_.alloc(inner, label="CurveParams", cells=cells)
        if d["kind"] == "pointer":
            return ex_.alloc(tid, label="CurveParams ptr", cells=[obj])
        return obj
    ex.global_override[BS + ".CurveParams"] = curve

    def x(ex_, args, ins):
        v = dom.sym("X")
        ex_.ctx.vars["x"] = (v.t, 0, False)
        return (v,)
    ex.intrinsics[BS + ".c17x"] = x

    def sqrt(ex_, args, ins):
        v = ex_.load(args[0], GEL)
        ex_.ctx.sqrt_arg = v
        isres = z3.Bool("rhs_is_square")
        s = dom.sym("S")
        ex_.ctx.sqrt_root = s
        ex_.ctx.isres = isres
        # nil for non-residues, otherwise a pointer to a root s (s^2 = rhs is the summarised contract, C17 sqrt groups)
        p = ex_.alloc(GEL, label="sqrt result", cells=[s])
        from gosmt.values import Guarded
        return (Guarded([(isres, p), (z3.Not(isres), None)]),)
    ex.intrinsics[FP + ".SqrtPrecomp"] = sqrt

    def lexl(ex_, args, ins):
        v = ex_.load(args[0], GEL)
        ex_.ctx.add_fact(z3.Implies(v.t != 0, LEXL(-v.t) == z3.Not(LEXL(v.t))))
        return (LEXL(v.t),)
    ex.intrinsics["(*%s).LexicographicallyLargest" % GEL] = lexl


def job_point(largest):
    h = "VerifC17PointFromX"
    params = {"largest": largest}
    ctx, ex = D.execute(PROG, BS + "." + h, intmode="bv", params=params, setup=setup_point, harness_pkgs=[BS], unwind=1000, prune=False)
    g = lambda n: [(gg, v) for (l, gg, v) in ctx.notes if l == n]
    X = ctx.vars["x"][0]
    A, Dc = z3.Real("A"), z3.Real("D")
    obs = []
    arg = ctx.sqrt_arg.t
    ctx.add_fact(Dc * X * X - 1 != 0)
    obs.append(ob("the square root is taken of (A x^2 - 1)/(D x^2 - 1)", arg != (A * X * X - 1) / (Dc * X * X - 1)))
    isnil = g("isnil")[0][1]
    obs.append(ob("nil exactly when the right-hand side has no square root", b_term(isnil) != z3.Not(ctx.isres)))
    S = ctx.sqrt_root.t
    ctx.add_fact(S != 0)
    for gg, py in g("py"):
        obs.append(ob("returned y is one of the two roots", b_and(gg, z3.And(py.t != S, py.t != -S))))
        obs.append(ob("returned y is the %s root (LexicographicallyLargest(y) == choose_largest)" % ("larger" if largest else "smaller"),
                      b_and(gg, LEXL(py.t) != z3.BoolVal(bool(largest)))))
    for gg, px in g("px"):
        obs.append(ob("returned point has the given x", b_and(gg, px.t != X)))
    for gg, xv in g("x"):
        obs.append(ob("x is not modified", b_and(gg, xv.t != X)))
    if not g("py"):
        obs.append(ob("a point is returned on the success path", True))
    recs = D.discharge_all(ctx, extra=obs, timeout_ms=60000)
    return {"group": "GetPointFromX choose_largest=%d" % largest, "recs": recs, "info": ctx_info(ctx), "harness": h, "params": params}


def run(tier, seed):
    global PROG, BUILD
    rep = Report("C17", tier, seed)
    BUILD = D.Build("c17", [FP, BS], [FP + ".*", BS + ".VerifC17PointFromX"], allow_extra=[GNARK_FR])
    try:
        PROG = BUILD.load()
    except Exception as e:  # noqa
        rep.inconclusive_group("load", str(e))
        return rep.finish()
    rep.bounds = {"dlog": "all 2^32 exponents of the 2-Sylow subgroup (symbolic 32-bit exponent), every table access index obligation",
                  "addition chain": "closed (exponents are concrete integers)", "glue": "x = 0 and x != 0 by substitution",
                  "point recovery": "x symbolic, both sign choices", "outside": "LUT keying by Montgomery limb bits; order of g; decomposition v^Q = g^E; y = 0 sign convention"}
    rep.assumptions = ["block table by definition g^(j<<8i), LUT maps g^(a*2^24) to -a mod 256 (guarded in the code by its init-time size check)",
                       "x^Q lies in the 2^32 subgroup (number theory)", "LexicographicallyLargest(-y) = not LexicographicallyLargest(y) for y != 0",
                       "SqrtPrecomp contract (nil iff non-residue, root otherwise) used as summary in the point-recovery group"]

    def on(a, item):
        pkg = BS if item["harness"] == "VerifC17PointFromX" else FP
        inner = std_replay(BUILD, pkg, pkg + "." + item["harness"], item["params"])

        def cb(rec):
            m = dict(rec.get("model") or {})
            if "x" in m and isinstance(m["x"], str) and "/" in m["x"]:
                a, b = m["x"].split("/")
                m["x"] = int(a) * pow(int(b), -1, P) % P
            r2 = dict(rec)
            r2["model"] = m
            if item["harness"] == "VerifC17PointFromX":
                # the model fixes the sign predicate of the abstract root, not x: search a few concrete x realising it
                last = (None, None)
                for xv in [m.get("x", 0), 0, 1, 2, 3, 4, 5, 6, 7, 9, 11, 13]:
                    m2 = dict(m)
                    m2["x"] = xv
                    r2["model"] = m2
                    last = inner(r2)
                    if last[0]:
                        return last
                return last
            return inner(r2)
        rep.add(item["group"], item["recs"], _Info(item["info"]), key_prefix=item["harness"], replay=cb)
    run_jobs(rep, job_dyadic, [()], name=lambda a: "dyadic", on_result=on)
    run_jobs(rep, job_powers, [()], name=lambda a: "powers", on_result=on)
    run_jobs(rep, job_sqrt, [(0,), (1,)], name=lambda a: "sqrt", on_result=on)
    run_jobs(rep, job_point, [(0,), (1,)], name=lambda a: "point", on_result=on)
    return rep.finish(explanation="fp/sqrt.go executed from SSA in the discrete-log domain (32-bit exponents) and the power domain; bandersnatch.computeY in the rational domain with an uninterpreted sign predicate.")


def replay(path):
    d = json.load(open(path))
    build = D.Build("c17", [FP, BS], [FP + ".*", BS + ".VerifC17PointFromX"], allow_extra=[GNARK_FR])
    res = native_replay(build, d["pkg"], d["entry"], d["params"], d["values"], tag="manual")
    print(res["output"])
    return 1 if (res["failed"] or res["panics"]) else 0
