"""C04 - IPA opens at any field point: in-domain / out-of-domain switch of the b vector exactly between 255 and 256."""
import json
import z3
from gosmt import driver as D
from gosmt import bigint, stdlib
from gosmt.bigint import MONT, UNMONT
from gosmt.check import Report, std_replay, native_replay, run_jobs, ctx_info, _Info
from gosmt.exec import Obligation
from gosmt.values import Unsupported, Ptr, Slice, is_term, b_and, b_not, b_term, cases_of
from checks.frlib import *

IPA = D.MOD + "/ipa"
EL = FR + ".Element"
PROG = None
BUILD = None
GLOBALS = None
ONE = [6347764673676886264, 253265890806062196, 11064306276430008312, 1739710354780652911]


def ob(label, viol):
    return Obligation(label, viol, "assert")


def setup(ex):
    stdlib.install(ex)
    bigint.install(ex)
    route_generic(ex)
    bigint.install_mont(ex, FR, Q, FR + ".rSquare")
    stdlib.install_binary_int(ex)
    ex.global_zero.add(FR + ".bigIntPool")

    def config(ex_, args, ins):
        pw = ex_.alloc(IPA + ".PrecomputedWeights", label="PrecomputedWeights (not read: barycentric routine is summarised)")
        lay = ex_.prog.layout(IPA + ".IPAConfig")
        cells = [ex_.zero_leaf(t) for t in lay]
        d = ex_.prog.under(IPA + ".IPAConfig")
        off = 0
        for f in d["fields"]:
            if f["name"] == "PrecomputedWeights":
                cells[off] = pw
            off += ex_.prog.ncells(f["type"])
        return (ex_.alloc(IPA + ".IPAConfig", label="IPAConfig", cells=cells),)
    ex.intrinsics[IPA + ".c04config"] = config

    def bary(ex_, args, ins):
        ex_.ctx.bary_calls = getattr(ex_.ctx, "bary_calls", []) + [(ex_.guard, args[1])]
        cells = []
        for i in range(256):
            cells += [z3.Int("bary_%d_%d" % (i, j)) for j in range(4)]
        p = ex_.alloc(EL, label="barycentric coefficients (summarised, see C18)", cells=cells, count=256)
        return (Slice(p, 256, 256, EL),)
    ex.intrinsics["(*%s.PrecomputedWeights).ComputeBarycentricCoefficients" % IPA] = bary


def job():
    h = "VerifC04BVector"
    ctx, ex = D.execute(PROG, IPA + "." + h, intmode="int", params={}, setup=setup, harness_pkgs=[IPA], globals_init=GLOBALS, unwind=1000, prune=False)
    Z = intval([ctx.vars["z%d" % i][0] for i in range(4)])
    ctx.add_fact(Z < Q)
    V = UNMONT(Z)
    ctx.add_fact(z3.And(V >= 0, V < Q))
    ctx.vars["V_regular"] = (V, 256, False)
    obs = []
    bc = getattr(ctx, "bary_calls", [])
    gb = False
    from gosmt.values import b_or
    for g, arg in bc:
        gb = b_or(gb, g)
        obs.append(ob("the barycentric routine receives the evaluation point itself", b_and(g, intval(list(arg)) != Z)))
    obs.append(ob("out-of-domain handling exactly for points > 255 (regular value)", b_term(gb) != (V > 255)))
    bnote = [v for (l, g, v) in ctx.notes if l == "b"][0]
    for g, sl in cases_of(bnote):
        info = ex.objs[sl.ptr.obj]
        if info["label"].startswith("barycentric"):
            continue
        if is_term(sl.len) or sl.len != 256:
            obs.append(ob("in-domain b vector has 256 entries", g))
            continue
        for j in range(256):
            cells = [ex.load(Ptr(sl.ptr.obj, sl.ptr.off + 4 * j + t, sl.ptr.sym), "uint64") for t in range(4)]
            exp_one = z3.And([c == ONE[t] for t, c in enumerate(cells)])
            exp_zero = z3.And([c == 0 for c in cells])
            obs.append(ob("in-domain: b[%d] is 1 iff the point is %d, else 0" % (j, j), b_and(g, z3.Not(gb) if is_term(gb) else (not gb), z3.Not(z3.If(V == j, exp_one, exp_zero)))))
    recs = D.discharge_all(ctx, extra=obs, timeout_ms=120000)
    return {"group": "computeBVector boundary (all field elements)", "recs": recs, "info": ctx_info(ctx), "harness": h, "params": {}}


def run(tier, seed):
    global PROG, BUILD, GLOBALS
    rep = Report("C04", tier, seed)
    BUILD = D.Build("c04", [IPA], [IPA + ".VerifC04BVector"], allow_extra=["encoding/binary"])
    try:
        PROG = BUILD.load()
        stdlib.annotate_used_results(PROG)
        GLOBALS = BUILD.dump_globals({FR: ["qElement", "rSquare", "_modulus"], IPA: ["maxEvalPointInsideDomain"]})
    except Exception as e:  # noqa
        rep.inconclusive_group("load", str(e))
        return rep.finish()
    rep.bounds = {"evalPoint": "all four limbs symbolic, every field element", "outside": "soundness (rejection of every other result) is cryptographic; completeness of the 8 folding rounds; barycentric coefficients themselves are C18"}
    rep.assumptions = ["fr.mul(.,rSquare)=MONT, fromMont=UNMONT bijection on [0,r) (C15)", "math/big stub; ComputeBarycentricCoefficients summarised (C18)",
                       "maxEvalPointInsideDomain read from a native run of the package's init"]

    def on(a, item):
        inner = std_replay(BUILD, IPA, IPA + "." + item["harness"], item["params"])

        def cb(rec):
            # the model fixes the regular value of the point; the harness input is its real Montgomery form
            m = dict(rec.get("model") or {})
            if "V_regular" in m:
                mont = int(m["V_regular"]) * (1 << 256) % Q
                for i in range(4):
                    m["z%d" % i] = (mont >> (64 * i)) & (W - 1)
            r2 = dict(rec)
            r2["model"] = m
            return inner(r2)
        rep.add(item["group"], item["recs"], _Info(item["info"]), key_prefix=item["harness"], replay=cb)
    run_jobs(rep, job, [()], name=lambda a: "bvector", on_result=on)
    return rep.finish(explanation="ipa.computeBVector (with fr.Cmp, ToBigIntRegular) executed from SSA in the integer encoding.")


def replay(path):
    d = json.load(open(path))
    build = D.Build("c04", [IPA], [IPA + ".VerifC04BVector"])
    res = native_replay(build, d["pkg"], d["entry"], d["params"], d["values"], tag="manual")
    print(res["output"])
    return 1 if (res["failed"] or res["panics"]) else 0
