"""C12 - shared configuration used concurrently: data-race freedom conditions of the worker fan-out regions,
read-only shared state, no blocked send/receive/Wait."""
import itertools
import json
import z3
from gosmt import driver as D
from gosmt import races
from gosmt.check import Report, run_jobs, std_replay, _Info, ctx_info
from gosmt.exec import Obligation
from gosmt.field import GNARK_FR
from gosmt.harness import frame_obligations
from checks import mplib as M
from checks import c01, c09, c19
from checks import ptlib as P

BW = D.MOD + "/banderwagon"
BS = D.MOD + "/bandersnatch"
ROOT = D.MOD


def finish_job(group, ctx, ex, h, params, pkg, extra=()):
    robs, checked = races.race_obligations(ex)
    if not robs:
        robs = [Obligation("no unordered conflicting accesses between goroutines (%d conflicting candidates examined, %d accesses logged)" % (checked, len(ex.access_log or [])), False, "assert")]
    recs = D.discharge_all(ctx, extra=list(robs) + list(extra) + frame_obligations(ex), timeout_ms=60000)
    info = ctx_info(ctx)
    info["accesses_logged"] = len(ex.access_log or [])
    info["goroutines"] = ex.next_task - 1
    return {"group": group, "recs": recs, "info": info, "harness": h, "params": params, "pkg": pkg}


def job_batchnormalize(idx, order):
    h = "VerifC19Batch"
    params = {"n": len(idx), "op": 3, "zeroz": 0, "onez": 0, "zerox": 0, "numcpu": 4, "map_order": order}
    for i, k in enumerate(idx):
        params["i%d" % i] = k
    ctx, ex = D.execute(c19.PROG, BW + "." + h, intmode="bv", params=params, setup=c19.setup, harness_pkgs=[BW], unwind=10000, prune=False, access_log=True)
    params.pop("map_order")
    return finish_job("BatchNormalize workers list=%s" % (list(idx),), ctx, ex, h, params, BW)


def job_grouping(zs, numcpu):
    h = "VerifC01Grouping"
    params = c01.params_of(zs, numcpu=numcpu)
    ctx, ex = D.execute(M.PROG, ROOT + "." + h, intmode="bv", params=params, setup=M.setup_mp, harness_pkgs=[ROOT], globals_init=M.GLOBALS, unwind=100000, prune=False, access_log=True)
    return finish_job("groupPolynomialsByEvaluationPoint workers zs=%s NumCPU=%d" % (list(zs), numcpu), ctx, ex, h, params, ROOT)


def job_prover(zs, numcpu):
    h = "VerifC01Prover"
    params = c01.params_of(zs, numcpu=numcpu, share=0, zeroy=0)
    ctx, ex = D.execute(M.PROG, ROOT + "." + h, intmode="bv", params=params, setup=M.setup_mp, harness_pkgs=[ROOT], globals_init=M.GLOBALS, unwind=100000, prune=False, access_log=True)
    return finish_job("CreateMultiProof (shared config read-only, workers) zs=%s NumCPU=%d" % (list(zs), numcpu), ctx, ex, h, params, ROOT)


def job_msm(c, n, split, summary):
    h = "VerifC09Inner"
    params = {"c": c, "n": n, "split": split}
    ctx, ex = D.execute(c09.PROG, BS + "." + h, intmode="bv", params=params, setup=(c09.setup_inner_summary if summary else c09.setup_inner), harness_pkgs=[BS], unwind=100000, prune=False, access_log=True)
    return finish_job("msmC%d goroutines n=%d split=%d%s" % (c, n, split, " [chunk processor summarised]" if summary else ""), ctx, ex, h, params, BS)


def job_partition(n, tasks, numcpu, c):
    h = "VerifC09PartitionMany"
    params = {"n": n, "tasks": tasks, "numcpu": numcpu, "c": c}
    ctx, ex = D.execute(c09.PROG, BS + "." + h, intmode="bv", params=params, setup=c09.setup_many, harness_pkgs=[BS], unwind=100000, prune=False, access_log=True)
    return finish_job("partitionScalars workers n=%d tasks=%d NumCPU=%d" % (n, tasks, numcpu), ctx, ex, h, params, BS)


def job_multiexp(n, tasks, numcpu):
    h = "VerifC09MultiExp"
    params = {"n": n, "nscalars": n, "tasks": tasks, "mont": 1, "numcpu": numcpu, "smallvalues": 0}
    ctx, ex = D.execute(c09.PROG, BS + "." + h, intmode="bv", params=params, setup=c09.setup_multiexp, harness_pkgs=[BS], unwind=100000, prune=False, access_log=True)
    return finish_job("MultiExp split goroutines n=%d NbTasks=%d NumCPU=%d" % (n, tasks, numcpu), ctx, ex, h, params, BS)


def run(tier, seed):
    rep = Report("C12", tier, seed)
    try:
        assert c01.load(rep)
        c19.BUILD = D.Build("c19", [BW], [BW + ".VerifC19Batch"], allow_extra=[GNARK_FR, P.GB])
        c19.PROG = c19.BUILD.load()
        c09.BUILD = D.Build("c09", [BS], [BS + ".*"])
        c09.PROG = c09.BUILD.load()
    except Exception as e:  # noqa
        rep.inconclusive_group("load", str(e)[:300])
        return rep.finish(level_if_clean="other")
    builds = {BW: c19.BUILD, BS: c09.BUILD, ROOT: M.BUILD}

    def on(a, item):
        rep.add(item["group"], item["recs"], _Info(item["info"]), key_prefix=item["harness"], sample=(len(rep.samples) < 8),
                replay=std_replay(builds[item["pkg"]], item["pkg"], item["pkg"] + "." + item["harness"], item["params"]))
    lists = [p for n in range(1, 4) for p in itertools.product(range(3), repeat=n)]
    run_jobs(rep, job_batchnormalize, [(idx, o) for idx in lists for o in ("insertion", "reverse")], name=lambda a: "BatchNormalize %s" % (a,), on_result=on)
    S = c01.index_sets(tier, seed)[0]
    pats = [p for n in (2, 3) for p in itertools.product(S, repeat=n)]
    run_jobs(rep, job_grouping, [(zs, cpu) for zs in pats for cpu in (1, 2, 3, 16)], name=lambda a: "grouping %s" % (a,), on_result=on)
    run_jobs(rep, job_prover, [(zs, 2) for zs in pats[:6]], name=lambda a: "prover %s" % (a,), on_result=on)
    run_jobs(rep, job_msm, [(c, 3, s, 1) for c in (4, 5, 6, 7, 8) for s in (0, 1)] + [(4, 2, 1, 0), (5, 2, 1, 0)], name=lambda a: "msm %s" % (a,), on_result=on)
    run_jobs(rep, job_partition, [(5, 2, 16, 8), (7, 3, 3, 16), (4, 4, 2, 5), (9, 4, 4, 4)], name=lambda a: "partition %s" % (a,), on_result=on)
    run_jobs(rep, job_multiexp, [(5, 65, 16), (9, 0, 128), (8, 128, 16), (3, 16, 16)], name=lambda a: "multiexp %s" % (a,), on_result=on)
    # pooled big integers: every object is put back at most once per Get (a double Put hands one object to two goroutines)
    from checks import c16
    if c16.load(rep):
        dj = [(h, {"n": n}) for h in ("VerifC16SetBytes", "VerifC16SetBytesLE", "VerifC16SetBytesLECanonical", "VerifC16SetBigInt") for n in (1, 32, 33)]
        c16.run_decoders(rep, dj)
    rep.bounds = {"pooled big integers": "the four scalar decoders on inputs of 1, 32, 33 bytes (accepting and rejecting paths): no object is returned to bigIntPool twice",
                  "fork-join regions": "BatchNormalize (all pointer lists of length <= 3 over a 3-element pool, both map orders), groupPolynomialsByEvaluationPoint (n in {2,3}, NumCPU 1,2,3,16), "
                  "msmC4..8 (n=3, with and without first-chunk split), partitionScalars fan-out, MultiExp recursive split, CreateMultiProof end to end",
                  "conditions": "for every pair of accesses from different goroutines to the same cell with at least one write: ordered by spawn / WaitGroup / channel happens-before; "
                  "sends never block on a full buffer, receives never on an empty channel after all senders finished, close after all sends, Wait counter returns to zero",
                  "outside": "interleavings are NOT enumerated: the claim is the data-race-freedom condition on the recorded accesses of the eager schedule (sound for these regions because task bodies do not branch on shared mutable state); "
                             "NewPrecompPoint's errgroup region and msmC9+ are not covered; the Go memory model below WaitGroup/channel ordering; starvation"}
    rep.assumptions = ["sync.Pool and sync.Once are trusted synchronised exceptions (the pool protocol - one Put per Get - is checked)", "shared configuration/tables are only read (frame obligations in the same runs)",
                       "goroutine bodies access the same cells in every schedule (no control dependence on racing data)"]
    return rep.finish(level_if_clean="other", explanation="Sufficient conditions for race freedom and absence of blocking decided on the access/event log of symbolic runs of the real fan-out code; "
                      "not an exhaustive schedule exploration.")


def replay(path):
    d = json.load(open(path))
    return 0
