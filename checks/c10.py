"""C10 - proof (de)serialisation is total, canonical and robust to I/O faults."""
import json
import z3
from gosmt import driver as D
from gosmt import stdlib, iohash
from gosmt.iohash import TVal, TDom, val_equal, cell_equal
from gosmt.check import Report, std_replay, native_replay, run_jobs, ctx_info, _Info
from gosmt.exec import Obligation
from gosmt.harness import frame_obligations, _name
from gosmt.stdlib import mk_error
from gosmt.values import Unsupported, Ptr, Slice, Iface, Guarded, is_term, b_and, b_not, simp_bool
from checks.frlib import FR, Q

ROOT = D.MOD
BW = D.MOD + "/banderwagon"
EL = FR + ".Element"
PT = BW + ".Element"
PROG = None
BUILD = None
GLOBALS = None
VALIDPT = z3.Function("VALIDPT", z3.BitVecSort(256), z3.BoolSort())


def setup(ex):
    stdlib.install(ex)
    dom = TDom()
    ex.prog.opaque[EL] = dom
    ex.prog.opaque[PT] = dom
    ex.prog._lay.clear()
    I = ex.intrinsics

    def cells_of(ex_, buf):
        n = buf.len
        if is_term(n):
            raise Unsupported("symbolic buffer length")
        return [ex_.load(Ptr(buf.ptr.obj, buf.ptr.off + i, buf.ptr.sym), "uint8") for i in range(n)]

    def structural(cells, kind):
        """all 32 cells are the i-th encoding byte of one structural value -> that value"""
        if len(cells) == 32 and all(isinstance(c, tuple) and c[0] == kind and c[2] == i for i, c in enumerate(cells)):
            v0 = cells[0][1]
            if all(c[1] is v0 or val_equal(c[1], v0) is True for c in cells):
                return v0
        return None

    def setbytes(ex_, args, ins):
        p, buf = args
        cells = cells_of(ex_, buf)
        ex_.ctx.point_decodes = getattr(ex_.ctx, "point_decodes", 0) + 1
        if len(cells) != 32:
            return (mk_error("invalid compressed point size"),)
        v = structural(cells, "pb")
        if v is not None:
            ex_.store_to(p, TVal(v, dom), PT)
            return (None,)
        if any(isinstance(c, tuple) for c in cells):
            raise Unsupported("point decoding of mixed structural bytes")
        bv = z3.Concat(*[c if is_term(c) else z3.BitVecVal(c, 8) for c in cells])
        ok = VALIDPT(bv)
        ex_.store_to(p, TVal(("dec", tuple(cells)), dom), PT)
        return (Guarded([(ok, None), (z3.Not(ok), mk_error("invalid point"))]),)
    I["(*%s).SetBytes" % PT] = setbytes

    def setbytes_unsafe(ex_, args, ins):
        from gosmt.exec import Obligation as Ob
        ex_.ctx.obligations.append(Ob("proof points are parsed by the validating decoder (SetBytes), not the unchecked one", ex_.guard, "assert"))
        p, buf = args
        cells = cells_of(ex_, buf)
        ex_.store_to(p, TVal(("dec", tuple(cells)), dom), PT)
        return (None,)
    I["(*%s).SetBytesUnsafe" % PT] = setbytes_unsafe

    def enc(v, kind):
        if v[0] in ("dec", "scal") and len(v[1]) == 32:
            return list(v[1])
        if v[0] == "ite":
            xa, xb = enc(v[2], kind), enc(v[3], kind)
            out = []
            for i, (x, y) in enumerate(zip(xa, xb)):
                if isinstance(x, tuple) or isinstance(y, tuple):
                    out.append(("ic", v[1], x, y))
                else:
                    out.append(z3.If(v[1], x if is_term(x) else z3.BitVecVal(x, 8), y if is_term(y) else z3.BitVecVal(y, 8)))
            return out
        return [(kind, v, i) for i in range(32)]

    def ptbytes(ex_, args, ins):
        return (tuple(enc(args[0].v, "pb")),)
    I["(%s).Bytes" % PT] = ptbytes
    I["(*%s).Equal" % PT] = lambda ex_, args, ins: (val_equal(ex_.load(args[0], PT).v, ex_.load(args[1], PT).v),)

    def canon(ex_, args, ins):
        z, buf = args
        cells = cells_of(ex_, buf)
        ex_.ctx.scalar_decodes = getattr(ex_.ctx, "scalar_decodes", 0) + 1
        v = structural(cells, "fb")
        if v is not None:
            ex_.store_to(z, TVal(v, dom), EL)
            return (z, None)
        if any(isinstance(c, tuple) for c in cells):
            raise Unsupported("scalar decoding of mixed structural bytes")
        bs = [c if is_term(c) else z3.BitVecVal(c, 8) for c in cells]
        val = z3.Concat(*reversed(bs)) if bs else z3.BitVecVal(0, 8)
        w = val.size()
        ok = z3.ULT(z3.ZeroExt(320 - w, val), z3.BitVecVal(Q, 320)) if w <= 320 else None
        if ok is None:
            raise Unsupported("scalar longer than 40 bytes")
        ex_.store_to(z, TVal(("scal", tuple(cells)), dom), EL)
        return (Guarded([(ok, z), (z3.Not(ok), None)]), Guarded([(ok, None), (z3.Not(ok), mk_error("not canonical"))]))
    I["(*%s).SetBytesLECanonical" % EL] = canon

    def frbytesle(ex_, args, ins):
        return (tuple(enc(ex_.load(args[0], EL).v, "fb")),)
    I["(*%s).BytesLE" % EL] = frbytesle
    I["(*%s).Equal" % EL] = lambda ex_, args, ins: (val_equal(ex_.load(args[0], EL).v, ex_.load(args[1], EL).v),)

    def binwrite(ex_, args, ins):
        w, order, data = args
        if not isinstance(data, Iface) or not isinstance(data.val, tuple):
            raise Unsupported("binary.Write of a non-array value")
        cells = list(data.val)
        ptr = ex_.alloc("uint8", label="binary.Write data", cells=cells, count=len(cells))
        fn = ex_.prog.itabs.get(w.tid, {}).get("Write")
        if fn is None:
            raise Unsupported("binary.Write: writer type %s" % w.tid)
        ret = ex_.call_function(fn, [w.val, Slice(ptr, len(cells), len(cells), "uint8")], ins)
        ex_.ctx.binary_writes = getattr(ex_.ctx, "binary_writes", 0) + 1
        return (ret[1],)
    I["encoding/binary.Write"] = binwrite

    def sym(kind):
        def f(ex_, args, ins):
            n = _name(ex_, args[0])
            ex_.ctx.vars[n] = (0, 0, False)
            return (TVal(("sym", kind + ":" + n), dom),)
        return f
    I[ROOT + ".c10point"] = sym("point")
    I[ROOT + ".c10scalar"] = sym("scalar")


def job(kind, params):
    h = "VerifC10Read" if kind == "read" else "VerifC10WriteRead"
    ctx, ex = D.execute(PROG, ROOT + "." + h, intmode="bv", params=params, setup=setup, harness_pkgs=[ROOT], globals_init=GLOBALS, unwind=700, prune=False)
    recs = D.discharge_all(ctx, extra=frame_obligations(ex), timeout_ms=120000)
    info = ctx_info(ctx)
    info["point_decodes"] = getattr(ctx, "point_decodes", 0)
    return {"group": "%s %s" % (h, params), "recs": recs, "info": info, "harness": h, "params": params}


def run(tier, seed):
    global PROG, BUILD, GLOBALS
    rep = Report("C10", tier, seed)
    BUILD = D.Build("c10", [ROOT], [ROOT + ".VerifC10Read", ROOT + ".VerifC10WriteRead"], allow_extra=["io"])
    try:
        PROG = BUILD.load()
        GLOBALS = BUILD.dump_globals({})
        # io.EOF and friends: distinct sentinel error values
        for n in ("EOF", "ErrUnexpectedEOF", "ErrShortBuffer", "ErrNoProgress", "ErrShortWrite"):
            GLOBALS["io." + n] = {"iface": "*errors.errorString", "val": n}
    except Exception as e:  # noqa
        rep.inconclusive_group("load", str(e))
        return rep.finish()
    Ls = [0, 1, 31, 32, 33, 543, 544, 545, 575, 576, 577, 578, 608, 640] if tier == "quick" else list(range(0, 641, 1))
    chunks = [0, 1, 7, 32, 33] if tier == "quick" else [0, 1, 2, 7, 31, 32, 33, 100, 575]
    jobs = []
    for ipa_ in (0, 1):
        for L in Ls:
            for ch in (chunks if L in (544, 576, 577, 545) else [0, 1]):
                for eof in (0, 1):
                    jobs.append(("read", {"L": L, "ipa": ipa_, "chunk": ch, "eofdata": eof, "badpoint": 0}))
    for fa in range(0, 20):
        jobs.append(("writeread", {"failAt": fa, "chunk": [0, 1, 32][fa % 3]}))
    rep.bounds = {"streams": "every byte content for each length in %s" % (Ls if len(Ls) < 30 else "0..640"), "reader chunking": "at most k bytes per Read for k in %s, with and without data+EOF on the last chunk" % chunks,
                  "writer faults": "failure at each of the 18 write calls", "outside": "readers returning (0, nil); chunk sizes not listed"}
    rep.assumptions = ["point decoder summarised by an uninterpreted validity predicate on the 32 bytes with Bytes(decode(b)) = b (C06/C07 contract)",
                       "canonical scalar decoder: accepts iff the little-endian value is < r, BytesLE(decode(b)) = b (C16)", "binary.Write(w, _, [32]byte) = one w.Write (stub); io.ReadAtLeast executed from its SSA"]

    def on(a, item):
        inner = std_replay(BUILD, ROOT, ROOT + "." + item["harness"], item["params"])

        def cb(rec):
            res = inner(rec)
            if res[0] or item["harness"] != "VerifC10Read":
                return res
            # counterexamples about point validity are realised natively by a concrete curve point outside the subgroup
            r2 = dict(rec)
            r2["model"] = {}
            return std_replay(BUILD, ROOT, ROOT + "." + item["harness"], dict(item["params"], badpoint=1))(r2)
        rep.add(item["group"], item["recs"], _Info(item["info"]), key_prefix=item["harness"], sample=(len(rep.samples) < 6), replay=cb)
    run_jobs(rep, job, jobs, name=lambda a: "%s %s" % a, on_result=on)
    return rep.finish(explanation="MultiProof/IPAProof Read and Write with common.ReadPoint/ReadScalar and io.ReadAtLeast executed from SSA over symbolic byte strings and a chunking reader model.")


def replay(path):
    d = json.load(open(path))
    build = D.Build("c10", [ROOT], [ROOT + ".VerifC10Read", ROOT + ".VerifC10WriteRead"])
    res = native_replay(build, d["pkg"], d["entry"], d["params"], d["values"], tag="manual")
    print(res["output"])
    return 1 if (res["failed"] or res["panics"]) else 0
