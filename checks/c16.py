"""C16 - scalar encodings round-trip, reduce or reject exactly, and leave the input intact."""
import json
import z3
from gosmt import driver as D
from gosmt import bigint, stdlib
from gosmt.bigint import MONT, UNMONT
from gosmt.check import Report, native_replay, run_jobs, ctx_info, _Info
from gosmt.exec import Obligation
from gosmt.harness import frame_obligations
from gosmt.values import Unsupported, is_term, b_and, b_not, b_term
from checks.frlib import *

PROG = None
BUILD = None
GLOBALS = None


def ob(label, viol):
    return Obligation(label, viol, "assert")


def setup(ex):
    stdlib.install(ex)
    bigint.install(ex)
    route_generic(ex)
    bigint.install_mont(ex, FR, Q, FR + ".rSquare")
    ex.global_zero.add(FR + ".bigIntPool")
    stdlib.install_binary_int(ex)


def bytes_int(ctx, n, le=False):
    bs = [ctx.vars["b[%d]" % i][0] for i in range(n)]
    if le:
        bs = bs[::-1]
    v = z3.IntVal(0)
    for b in bs:
        v = v * 256 + b
    return v


def spec(h, ctx, ex, params):
    obs = []
    if h in ("VerifC16SetBytes", "VerifC16SetBytesLE", "VerifC16SetBytesLECanonical", "VerifC16SetBigInt"):
        n = params["n"]
        le = h not in ("VerifC16SetBytes", "VerifC16SetBigInt")
        I = bytes_int(ctx, n, le)
        Z = intval(list(note(ctx, "z")))
        V = z3.Int("Vspec")
        K = z3.Int("Kspec")
        ctx.add_fact(z3.And(V >= 0, V < Q, K >= 0, I == V + K * Q))
        J = intval(var_limbs(ctx, "junk"))
        ctx.add_fact(J < Q)
        mc = [(x, g) for (k, x, g) in getattr(ctx, "mont_calls", []) if k == "MONT"]
        if not 1 <= len(mc) <= 2:
            raise Unsupported("expected one conversion to Montgomery form per path, found %d" % len(mc))
        XA = mc[-1][0] if not is_term(mc[-1][0]) else mc[-1][0]
        for x, g in reversed(mc[:-1]):
            XA = z3.If(b_term(g), x, XA)
        XA = XA if is_term(XA) else z3.IntVal(XA)
        if h == "VerifC16SetBytesLECanonical":
            ok = b_term(note(ctx, "ok"))
            obs.append(ob("canonical decoder accepts exactly the encodings of integers < r", ok != (I < Q)))
            obs.append(ob("canonical decoder: accepted input decodes to its integer value", z3.And(ok, XA != I)))
            obs.append(ob("canonical decoder: result is the Montgomery form of the decoded value", z3.And(ok, Z != MONT(XA))))
            obs.append(ob("canonical decoder: returns nil exactly on error", b_term(note(ctx, "retnil")) == ok))
        elif h == "VerifC16SetBigInt":
            obs.append(ob("SetBigInt(r) is zero", z3.And(I == Q, Z != 0)))
            obs.append(ob("SetBigInt: the value converted to Montgomery form is v mod r", z3.And(I != Q, XA != V)))
            obs.append(ob("SetBigInt: result is the Montgomery form of that value", z3.And(I != Q, Z != MONT(XA))))
            obs.append(ob("decoded element fully reduced", b_not(z3.And(Z >= 0, Z < Q))))
            obs += frame_obligations(ex)
            return obs
        else:
            obs.append(ob("reducing decoder: the value converted to Montgomery form is int(b) mod r", XA != V))
            obs.append(ob("reducing decoder: result is the Montgomery form of that value", Z != MONT(XA)))
        obs.append(ob("decoded element fully reduced", b_not(z3.And(Z >= 0, Z < Q))))
    elif h in ("VerifC16RoundTripBE", "VerifC16RoundTripLE"):
        X = intval(var_limbs(ctx, "x"))
        ctx.add_fact(X < Q)
        Z = intval(list(note(ctx, "z")))
        obs.append(ob("decode(encode(s)) = s", Z != X))
        bs = list(note(ctx, "b"))
        if h.endswith("LE"):
            bs = bs[::-1]
        v = z3.IntVal(0)
        for b in bs:
            v = v * 256 + b
        obs.append(ob("encoding is the 32-byte integer value of the regular form", v != UNMONT(X)))
    elif h == "VerifC16BytesLayout":
        X = intval(var_limbs(ctx, "x"))
        ctx.add_fact(X < Q)
        R_ = intval(list(note(ctx, "r")))
        be, le = list(note(ctx, "be")), list(note(ctx, "le"))
        vb = z3.IntVal(0)
        for b in be:
            vb = vb * 256 + b
        vl = z3.IntVal(0)
        for b in le[::-1]:
            vl = vl * 256 + b
        obs.append(ob("ToRegular is UNMONT", R_ != UNMONT(X)))
        obs.append(ob("Bytes() is the big-endian regular value", vb != R_))
        obs.append(ob("BytesLE() is the little-endian regular value", vl != R_))
        obs.append(ob("SetBigInt(ToBigIntRegular(s)) = s", intval(list(note(ctx, "z"))) != X))
    else:
        raise Unsupported("no spec for " + h)
    obs += frame_obligations(ex)
    return obs


def judge(h, params, values, notes):
    Rinv = pow(1 << 256, -1, Q)
    Rm = (1 << 256) % Q
    if h in ("VerifC16SetBytes", "VerifC16SetBytesLE", "VerifC16SetBytesLECanonical", "VerifC16SetBigInt"):
        n = params["n"]
        bs = [int(values.get("b[%d]" % i, 0)) for i in range(n)]
        I = int.from_bytes(bytes(bs), "little" if h not in ("VerifC16SetBytes", "VerifC16SetBigInt") else "big")
        z = pyval(notes["z"][0])
        if h == "VerifC16SetBytesLECanonical":
            ok = bool(notes["ok"][0])
            return ok != (I < Q) or (ok and z != I * Rm % Q)
        return z != (I % Q) * Rm % Q
    x = model_elem(values, "x")
    if h.startswith("VerifC16RoundTrip"):
        return pyval(notes["z"][0]) != x
    if h == "VerifC16BytesLayout":
        r = x * Rinv % Q
        be = bytes(int(b) for b in notes["be"][0])
        le = bytes(int(b) for b in notes["le"][0])
        return int.from_bytes(be, "big") != r or int.from_bytes(le, "little") != r or pyval(notes["z"][0]) != x
    return None


def job(h, params):
    ctx, ex = D.execute(PROG, FR + "." + h, intmode="int", params=params, setup=setup, harness_pkgs=[FR], globals_init=GLOBALS, unwind=8)
    obs = spec(h, ctx, ex, params)
    # satisfiable-side help for the reachability witness only: a concrete input (every byte 1, limbs 1)
    ctx.reach_hint = {n: 1 for n in ctx.vars}
    recs = D.discharge_all(ctx, extra=obs, timeout_ms=120000, skip_reach=False)
    return {"group": "%s %s" % (h, params), "recs": recs, "info": ctx_info(ctx), "harness": h, "params": params}


def make_replay(h, params):
    def cb(rec):
        res = native_replay(BUILD, FR, FR + "." + h, params, rec.get("model") or {}, tag="%s_%s" % (h, "_".join("%s%s" % kv for kv in params.items())))
        if not res["built"]:
            return None, res["path"]
        if res["panics"] or res["failed"]:
            return True, res["path"]
        try:
            v = judge(h, params, rec.get("model") or {}, res["notes"])
        except Exception:
            v = None
        return v, res["path"]
    return cb


def load(rep):
    global PROG, BUILD, GLOBALS
    BUILD = D.Build("c16", [FR], [FR + ".*"], allow_extra=["encoding/binary"])
    try:
        PROG = BUILD.load()
        stdlib.annotate_used_results(PROG)
        GLOBALS = BUILD.dump_globals({FR: ["qElement", "rSquare", "_modulus"]})
    except Exception as e:  # noqa
        rep.inconclusive_group("load", str(e))
        return False
    return True


def run_decoders(rep, jobs):
    """used by C12/C13: the decoder harnesses with their write-monitor, purity and pool-protocol obligations"""
    def on_result(a, item):
        rep.add(item["group"], item["recs"], _Info(item["info"]), key_prefix=item["harness"], sample=False, replay=make_replay(item["harness"], item["params"]))
    run_jobs(rep, job, jobs, name=lambda a: "%s %s" % a, on_result=on_result)


def run(tier, seed):
    rep = Report("C16", tier, seed)
    if not load(rep):
        return rep.finish()
    lens = list(range(0, 65)) if tier == "thorough" else [0, 1, 7, 8, 9, 24, 31, 32, 33, 40, 63, 64]
    rep.bounds = {"byte strings": "every content of each length in %s (length concrete per query)" % lens, "scalars": "all limb values < r",
                  "receiver": "arbitrary previous content", "SetBigInt": "every non-negative integer of the listed byte lengths (built with big.Int.SetBytes); caller's integer compared before/after",
                  "outside": "lengths > 64; negative big.Int arguments of SetBigInt; fp.BytesLE (dependency code)"}
    rep.assumptions = ["fr.mul(z,x,&rSquare)=MONT(x) and fr.fromMont=UNMONT, mutually inverse bijections on [0,r) (limb-level contracts proved in C15; bijectivity is the paper step)",
                       "math/big.Int is a mathematical integer; sync.Pool.Get returns a big.Int with arbitrary content",
                       "encoding/binary byte-order helpers executed from their SSA"]
    jobs = []
    for h in ("VerifC16SetBytes", "VerifC16SetBytesLE", "VerifC16SetBytesLECanonical"):
        jobs += [(h, {"n": n}) for n in lens]
    jobs += [("VerifC16SetBigInt", {"n": n}) for n in (lens if tier == "thorough" else [0, 1, 8, 31, 32, 33, 40])]
    jobs += [("VerifC16RoundTripBE", {}), ("VerifC16RoundTripLE", {}), ("VerifC16BytesLayout", {})]

    def on_result(a, item):
        rep.add(item["group"], item["recs"], _Info(item["info"]), key_prefix=item["harness"], replay=make_replay(item["harness"], item["params"]))
    run_jobs(rep, job, jobs, name=lambda a: "%s %s" % a, on_result=on_result)
    return rep.finish(explanation="Decoders/encoders of bandersnatch/fr executed from SSA in the integer encoding; Montgomery conversions summarised by the bijection proved at limb level; write monitor on the caller's byte slice.")


def replay(path):
    d = json.load(open(path))
    build = D.Build("c16", [FR], [FR + ".*"])
    res = native_replay(build, d["pkg"], d["entry"], d["params"], d["values"], tag="manual")
    print(res["output"])
    return 1 if (res["failed"] or res["panics"]) else 0
