"""C15 / O2: the assembly routines of bandersnatch/fr (text of the .s files interpreted into SMT) meet the same specifications
as their portable twins, for every aliasing pattern of the pointer arguments."""
import os
import random
import time
import z3
from gosmt import driver as D
from gosmt import asm2smt
from gosmt.exec import Obligation, Ctx
from gosmt.values import Unsupported, is_term, b_and, b_not
from checks.frlib import Q, W, FR

FRDIR = os.path.join(D.REPO, "bandersnatch", "fr")
OPS = os.path.join(FRDIR, "element_ops_amd64.s")
MUL = os.path.join(FRDIR, "element_mul_amd64.s")
MULADX = os.path.join(FRDIR, "element_mul_adx_amd64.s")


def limbs(prefix, mode):
    if mode == "bv":
        return [z3.BitVec("%s%d" % (prefix, i), 64) for i in range(4)]
    return [z3.Int("%s%d" % (prefix, i)) for i in range(4)]


def bv320(ls):
    ts = [l if is_term(l) else z3.BitVecVal(l, 64) for l in ls]
    return z3.ZeroExt(64, z3.Concat(ts[3], ts[2], ts[1], ts[0]))


def ival(ls):
    return sum((l if is_term(l) else z3.IntVal(l)) * W ** i for i, l in enumerate(ls))


ALIAS3 = {0: {"res": "R", "x": "X", "y": "Y"}, 1: {"res": "X", "x": "X", "y": "Y"}, 2: {"res": "Y", "x": "X", "y": "Y"},
          3: {"res": "R", "x": "X", "y": "X"}, 4: {"res": "X", "x": "X", "y": "X"}}
ALIAS2 = {0: {"res": "R", "x": "X"}, 1: {"res": "X", "x": "X"}}


def solve(facts, viol, timeout=300000):
    s = z3.Solver()
    s.set("timeout", timeout)
    for f in facts:
        s.add(f)
    s.add(viol)
    t0 = time.time()
    r = s.check()
    st = "unsat" if r == z3.unsat else ("sat" if r == z3.sat else "unknown:" + s.reason_unknown())
    model = None
    if r == z3.sat:
        m = s.model()
        model = {str(d): str(m[d]) for d in m.decls() if str(d)[0] in "xy" and len(str(d)) == 2}
    return st, time.time() - t0, model


def rec(label, st, t, model=None):
    ok = st == "unsat"
    return {"label": label, "kind": "assert", "status": st, "time_s": round(t, 3), "pos": "", "ok": ok,
            "verdict": "holds" if ok else ("violated" if st == "sat" else "inconclusive"), "model": model or {}}


def job_ops_int(name, alias):
    """integer-encoding run of the carry-chain routines of element_ops_amd64.s (linear arithmetic)"""
    X, Y, R0 = limbs("x", "int"), limbs("y", "int"), limbs("r", "int")
    rng = [z3.And(v >= 0, v < W) for v in X + Y + R0]
    pre = rng + [ival(X) < (2 * Q if name == "reduce" else Q), ival(Y) < Q]
    outs = []
    if name in ("add", "sub"):
        al = ALIAS3[alias]
        m = asm2smt.run_routine(OPS, name, "int", ["res", "x", "y"], al, {"R": R0, "X": X, "Y": Y})
        xv, yv = ival(X), ival(X if al["y"] == "X" else Y)
        outs = [(name, ival(m.mem[al["res"]]), xv + yv if name == "add" else xv - yv, (-1, 0, 1))]
        others = [(t, v0) for t, v0 in (("X", X), ("Y", Y)) if t != al["res"]]
    elif name == "double":
        al = ALIAS2[alias]
        m = asm2smt.run_routine(OPS, name, "int", ["res", "x"], al, {"R": R0, "X": X})
        outs = [(name, ival(m.mem[al["res"]]), 2 * ival(X), (-1, 0))]
        others = [("X", X)] if al["res"] != "X" else []
    elif name == "reduce":
        m = asm2smt.run_routine(OPS, name, "int", ["res"], {"res": "X"}, {"X": X})
        outs = [(name, ival(m.mem["X"]), ival(X), (-1, 0))]
        others = []
    elif name.startswith("MulBy"):
        c = int(name[5:])
        m = asm2smt.run_routine(OPS, name, "int", ["x"], {"x": "X"}, {"X": X})
        outs = [(name, ival(m.mem["X"]), c * ival(X), tuple(-k for k in range(c + 1)))]
        others = []
    elif name == "Butterfly":
        al = {"a": "X", "b": "Y"} if alias == 0 else {"a": "X", "b": "X"}
        m = asm2smt.run_routine(OPS, name, "int", ["a", "b"], al, {"X": X, "Y": Y})
        if alias == 0:
            outs = [("Butterfly a+b", ival(m.mem["X"]), ival(X) + ival(Y), (-1, 0)), ("Butterfly a-b", ival(m.mem["Y"]), ival(X) - ival(Y), (0, 1))]
        others = []
    else:
        raise Unsupported(name)
    facts = pre + list(m.ctx.facts)
    recs = []
    for lab, Z, expr, ks in outs:
        st, t, mod = solve(facts, z3.Not(z3.And(Z >= 0, Z < Q)))
        recs.append(rec("asm %s (alias %d): result fully reduced" % (lab, alias), st, t, mod))
        st, t, mod = solve(facts, z3.Not(z3.Or([Z == expr + k * Q for k in ks])))
        recs.append(rec("asm %s (alias %d): result = integer operation + k*r" % (lab, alias), st, t, mod))
    for tname, v0 in others:
        same = all((a is b) or (is_term(a) and is_term(b) and a.eq(b)) for a, b in zip(m.mem[tname], v0))
        recs.append(rec("asm %s (alias %d): operand %s unchanged" % (name, alias, tname), "unsat" if same else "sat", 0))
    if not outs:
        recs.append(rec("asm %s aliased: executes" % name, "unsat", 0))
    return {"group": "asm %s alias=%d [int]" % (name, alias), "recs": recs, "info": {"functions_encoded": {"asm:" + name: m.ninstr}, "stubs_used": {}, "exec_s": 0.0}}


def job_ops(name, alias):
    """bit-vector run of one routine of element_ops_amd64.s"""
    q = z3.BitVecVal(Q, 320)
    X, Y = limbs("x", "bv"), limbs("y", "bv")
    R0 = limbs("r", "bv")
    facts = [z3.ULT(bv320(X), q), z3.ULT(bv320(Y), q)]
    if name in ("add", "sub"):
        al = ALIAS3[alias]
        m = asm2smt.run_routine(OPS, name, "bv", ["res", "x", "y"], al, {"R": R0, "X": X, "Y": Y})
        xv, yv = bv320(X), bv320(X if al["y"] == "X" else Y)
        Z = bv320(m.mem[al["res"]])
        exp = z3.If(z3.UGE(xv + yv, q), xv + yv - q, xv + yv) if name == "add" else z3.If(z3.UGE(xv, yv), xv - yv, xv + q - yv)
        others = [(t, v0) for t, v0 in (("X", X), ("Y", Y)) if t != al["res"]]
    elif name in ("double", "neg"):
        al = ALIAS2[alias]
        m = asm2smt.run_routine(OPS, name, "bv", ["res", "x"], al, {"R": R0, "X": X})
        xv = bv320(X)
        Z = bv320(m.mem[al["res"]])
        exp = z3.If(z3.UGE(xv + xv, q), xv + xv - q, xv + xv) if name == "double" else z3.If(xv == 0, xv, q - xv)
        others = [("X", X)] if al["res"] != "X" else []
    elif name == "reduce":
        facts = [z3.ULT(bv320(X), 2 * q)]
        m = asm2smt.run_routine(OPS, name, "bv", ["res"], {"res": "X"}, {"X": X})
        xv = bv320(X)
        Z = bv320(m.mem["X"])
        exp = z3.If(z3.UGE(xv, q), xv - q, xv)
        others = []
    elif name in ("MulBy3", "MulBy5", "MulBy13"):
        c = int(name[5:])
        m = asm2smt.run_routine(OPS, name, "bv", ["x"], {"x": "X"}, {"X": X})
        xv = bv320(X)
        Z = bv320(m.mem["X"])
        st1, t1, mod1 = solve(facts, z3.Not(z3.ULT(Z, q)))
        st2, t2, mod2 = solve(facts, z3.Not(z3.Or([xv * c == Z + k * q for k in range(c + 1)])))
        return {"group": "asm %s" % name, "recs": [rec("asm %s: result fully reduced" % name, st1, t1, mod1), rec("asm %s: c*x = z + k*r" % name, st2, t2, mod2)],
                "info": {"functions_encoded": {"asm:" + name: m.ninstr}, "stubs_used": {}, "exec_s": 0.0}}
    elif name == "Butterfly":
        al = {"a": "X", "b": "Y"} if alias == 0 else {"a": "X", "b": "X"}
        m = asm2smt.run_routine(OPS, name, "bv", ["a", "b"], al, {"X": X, "Y": Y})
        xv, yv = bv320(X), bv320(Y)
        if alias == 0:
            Za, Zb = bv320(m.mem["X"]), bv320(m.mem["Y"])
            r = []
            for lab, z, e in (("a+b", Za, z3.If(z3.UGE(xv + yv, q), xv + yv - q, xv + yv)), ("a-b", Zb, z3.If(z3.UGE(xv, yv), xv - yv, xv + q - yv))):
                st, t, mod = solve(facts, z != e)
                r.append(rec("asm Butterfly %s equals the integer operation modulo r (fully reduced)" % lab, st, t, mod))
            return {"group": "asm Butterfly alias=%d" % alias, "recs": r, "info": {"functions_encoded": {"asm:Butterfly": m.ninstr}, "stubs_used": {}, "exec_s": 0.0}}
        return {"group": "asm Butterfly alias=%d" % alias, "recs": [rec("asm Butterfly aliased: executes (result defined)", "unsat", 0)],
                "info": {"functions_encoded": {"asm:Butterfly": m.ninstr}, "stubs_used": {}, "exec_s": 0.0}}
    else:
        raise Unsupported(name)
    recs = []
    st, t, mod = solve(facts, Z != exp)
    recs.append(rec("asm %s (alias %d): result equals the integer operation modulo r, fully reduced" % (name, alias), st, t, mod))
    for tname, v0 in others:
        same = z3.And([a == b for a, b in zip(m.mem[tname], v0)]) if any(is_term(a) and not a.eq(b) for a, b in zip(m.mem[tname], v0)) else z3.BoolVal(True)
        st, t, mod = solve(facts, z3.Not(same))
        recs.append(rec("asm %s (alias %d): operand %s unchanged" % (name, alias, tname), st, t, mod))
    return {"group": "asm %s alias=%d" % (name, alias), "recs": recs, "info": {"functions_encoded": {"asm:" + name: m.ninstr}, "stubs_used": {}, "exec_s": 0.0}}


def prove_lemmas(m, facts, timeout=20000):
    s = z3.Solver()
    s.set("timeout", timeout)
    n = 0
    for f in facts:
        s.add(f)
    done = 0
    for (label, g, term) in m.ctx.lemma_candidates:
        while done < len(m.ctx.facts):
            s.add(m.ctx.facts[done])
            done += 1
        s.push()
        s.add(term != 0)
        r = s.check()
        s.pop()
        if r == z3.unsat:
            m.ctx.facts.append(term == 0)
            n += 1
    return n


def job_mul(path, name, alias):
    """integer-encoding run of mul / fromMont (ADX path) with abstract products and dead-value lemmas"""
    X, Y, R0 = limbs("x", "int"), limbs("y", "int"), limbs("r", "int")
    rng = [z3.And(v >= 0, v < W) for v in X + Y + R0]
    t0 = time.time()
    if name == "mul":
        al = ALIAS3[alias]
        m = asm2smt.run_routine(path, "mul", "int", ["res", "x", "y"], al, {"R": R0, "X": X, "Y": Y}, supportAdx=True)
        Yl = X if al["y"] == "X" else Y
        pre = rng + [ival(X) < Q, ival(Yl) < Q]
        S = 0
        for i in range(4):
            for j in range(4):
                key = tuple(sorted((X[i].get_id(), Yl[j].get_id())))
                P = m.ctx.products.get(key)
                if P is None:
                    raise Unsupported("product x%d*y%d not computed by the assembly" % (i, j))
                S = S + P * W ** (i + j)
        Z = ival(m.mem[al["res"]])
    else:
        m = asm2smt.run_routine(path, "fromMont", "int", ["res"], {"res": "X"}, {"X": X}, supportAdx=True)
        pre = rng + [ival(X) < Q]
        S = ival(X)
        Z = ival(m.mem["X"])
    if len(m.ctx.mulwit) != 4:
        raise Unsupported("expected 4 Montgomery quotient words, found %d" % len(m.ctx.mulwit))
    nl = prove_lemmas(m, pre)
    M = sum(w * W ** i for i, w in enumerate(m.ctx.mulwit))
    facts = pre + list(m.ctx.facts)
    recs = []
    st, t, mod = solve(facts, z3.Not(z3.And(Z >= 0, Z < Q)))
    recs.append(rec("asm %s (%s, alias %d): result fully reduced" % (name, os.path.basename(path), alias), st, t, mod))
    st, t, mod = solve(facts, z3.Not(z3.Or(Z * W ** 4 == S + M * Q, (Z + Q) * W ** 4 == S + M * Q)))
    recs.append(rec("asm %s (%s, alias %d): Montgomery identity z*2^256 = x*y + M*r" % (name, os.path.basename(path), alias), st, t, mod))
    recs.append(rec("dead-value lemmas proved: %d of %d candidates" % (nl, len(m.ctx.lemma_candidates)), "unsat", 0))
    # concrete validation of the interpreter against integer arithmetic
    r_ = random.Random(alias + len(name))
    for k in range(2):
        xv, yv = [r_.randrange(Q), Q - 1][k], [r_.randrange(Q), Q - 1][k]
        xl = [(xv >> (64 * i)) & (W - 1) for i in range(4)]
        yl = [(yv >> (64 * i)) & (W - 1) for i in range(4)]
        if name == "mul":
            mc = asm2smt.run_routine(path, "mul", "int", ["res", "x", "y"], ALIAS3[alias], {"R": [0] * 4, "X": xl, "Y": yl})
            got = sum(v << (64 * i) for i, v in enumerate(mc.mem[ALIAS3[alias]["res"]]))
            yy = xv if ALIAS3[alias]["y"] == "X" else yv
            want = xv * yy * pow(1 << 256, -1, Q) % Q
        else:
            mc = asm2smt.run_routine(path, "fromMont", "int", ["res"], {"res": "X"}, {"X": xl})
            got = sum(v << (64 * i) for i, v in enumerate(mc.mem["X"]))
            want = xv * pow(1 << 256, -1, Q) % Q
        ok = got == want
        if ok:
            recs.append({"label": "reachability witness: concrete run of the assembly interpreter matches integer arithmetic", "kind": "reach", "status": "sat",
                         "time_s": 0, "pos": "", "ok": True, "verdict": "reached"})
        else:
            mdl = {"x%d" % i: xl[i] for i in range(4)}
            mdl.update({"y%d" % i: yl[i] for i in range(4)})
            recs.append({"label": "asm %s (%s): concrete counterexample, interpreted assembly differs from integer arithmetic" % (name, os.path.basename(path)), "kind": "assert", "status": "sat",
                         "time_s": 0, "pos": "", "ok": False, "verdict": "violated", "model": mdl, "asm_routine": name})
    return {"group": "asm %s %s alias=%d" % (name, os.path.basename(path), alias), "recs": recs,
            "info": {"functions_encoded": {"asm:%s:%s" % (os.path.basename(path), name): m.ninstr}, "stubs_used": {}, "exec_s": round(time.time() - t0, 2)}}


def job_fallback(path, name):
    """supportAdx == false: the routine calls the portable Go function with its own arguments"""
    X, Y, R0 = limbs("x", "int"), limbs("y", "int"), limbs("r", "int")
    if name == "mul":
        m = asm2smt.run_routine(path, "mul", "int", ["res", "x", "y"], ALIAS3[0], {"R": R0, "X": X, "Y": Y}, supportAdx=False)
        ok = m.calls == ["·_mulGeneric(SB)"] and m.mem["stack"][:3] == [("ptr", "R"), ("ptr", "X"), ("ptr", "Y")]
    else:
        m = asm2smt.run_routine(path, "fromMont", "int", ["res"], {"res": "X"}, {"X": X}, supportAdx=False)
        ok = m.calls == ["·_fromMontGeneric(SB)"] and m.mem["stack"][0] == ("ptr", "X")
    return {"group": "asm %s fallback (no ADX)" % name, "recs": [rec("without ADX the routine calls the portable function with (res, x, y) unchanged", "unsat" if ok else "sat", 0)],
            "info": {"functions_encoded": {"asm:%s:fallback" % name: m.ninstr}, "stubs_used": {}, "exec_s": 0.0}}


def all_jobs(tier):
    jobs = [("ops", "add", a) for a in range(5)] + [("ops", "sub", a) for a in range(5)] + [("ops", "double", a) for a in range(2)] + [("ops", "neg", a) for a in range(2)]
    jobs += [("ops", "reduce", 0), ("ops", "MulBy3", 0), ("ops", "MulBy5", 0), ("ops", "MulBy13", 0), ("ops", "Butterfly", 0), ("ops", "Butterfly", 1)]
    for path in (MUL, MULADX):
        jobs += [("mul", path, "mul", a) for a in (range(5) if tier == "thorough" else ((0, 4) if path == MUL else (1,)))]
        jobs += [("mul", path, "fromMont", 0)]
    jobs += [("fb", MUL, "mul"), ("fb", MUL, "fromMont")]
    if tier == "thorough":
        jobs += [("ops", "add", a, "bv") for a in range(5)] + [("ops", "sub", a, "bv") for a in range(5)] + [("ops", "double", 0, "bv"), ("ops", "reduce", 0, "bv")]
    return jobs


def job(*a):
    if a[0] == "ops":
        return job_ops(a[1], a[2]) if (a[1] == "neg" or (len(a) > 3 and a[3] == "bv")) else job_ops_int(a[1], a[2])
    if a[0] == "mul":
        return job_mul(a[1], a[2], a[3])
    return job_fallback(a[1], a[2])
