"""Shared machinery for the multiproof bookkeeping checks (C01, C03, C13): prover / verifier / grouping harnesses
executed with field elements as rational functions (A_Q), group elements as formal linear combinations (G) and the
transcript as an absorb log."""
import json
from fractions import Fraction
import z3
from gosmt import driver as D
from gosmt import stdlib, field, gpoint, tlog
from gosmt.field import FVal
from gosmt.group import GDom, GVal
from gosmt.check import Report, std_replay, native_replay, run_jobs, ctx_info, _Info
from gosmt.exec import Obligation
from gosmt.harness import frame_obligations, protect_object, _name
from gosmt.values import Unsupported, Ptr, Slice, is_term, b_and, b_not, simp_bool, cases_of
from checks.frlib import FR, Q
from checks.c18 import APR, rv, N

ROOT = D.MOD
IPA = D.MOD + "/ipa"
BW = D.MOD + "/banderwagon"
CM = D.MOD + "/common"
EL = FR + ".Element"
PT = BW + ".Element"
PROG = None
BUILD = None
GLOBALS = None


def ob(label, viol):
    return Obligation(label, viol, "assert")


def obi(label, lhs, rhs):
    """identity obligation between two rational-function terms (hypothesis-free)"""
    o = Obligation(label, lhs != rhs, "assert")
    o.ident = (lhs, rhs)
    return o


def setup_mp(ex):
    stdlib.install(ex)
    dom = field.install_real(ex, types=("repo",))
    gd = GDom("real")
    gpoint.install(ex, gd)
    tlog.install(ex, dom, EL, PT, gpoint.getg)
    I = ex.intrinsics
    I["runtime.NumCPU"] = lambda ex_, args, ins: (ex_.ctx.params.get("numcpu", 16),)
    ex.ctx.calls = {}

    def rec(name, val):
        ex.ctx.calls.setdefault(name, []).append(val)

    def frsym(ex_, args, ins):
        n = _name(ex_, args[0])
        v = dom.sym("F_" + n.replace("#", "_"))
        ex_.ctx.vars[n] = (v.t, 0, False)
        return (v,)
    I[ROOT + ".c01fr"] = frsym

    def elem_value(g):
        return (g, gd.zero(), gd.zero())

    def config(ex_, args, ins):
        p = ex_.prog
        w = [FVal(rv(Fraction(APR[i])), dom, "nonzero") for i in range(N)] + [FVal(rv(Fraction(1, APR[i])), dom, "nonzero") for i in range(N)]
        inv = [FVal(rv(Fraction(1, i)), dom, "nonzero") for i in range(1, N)] + [FVal(rv(Fraction(-1, i)), dom, "nonzero") for i in range(1, N)]
        pw = ex_.alloc(EL, label="barycentricWeights (by definition)", cells=w, count=2 * N)
        pi = ex_.alloc(EL, label="invertedDomain (by definition)", cells=inv, count=2 * (N - 1))
        pws = ex_.alloc(IPA + ".PrecomputedWeights", label="PrecomputedWeights", cells=[Slice(pw, 2 * N, 2 * N, EL), Slice(pi, 2 * (N - 1), 2 * (N - 1), EL)])
        srs_cells = []
        for j in range(N):
            srs_cells += [gd.gen("G%d" % j), gd.zero(), gd.zero()]
        srs = ex_.alloc(PT, label="SRS (generator symbols)", cells=srs_cells, count=N)
        d = p.under(IPA + ".IPAConfig")
        cells = []
        for f in d["fields"]:
            if f["name"] == "SRS":
                cells += [Slice(srs, N, N, PT)]
            elif f["name"] == "Q":
                cells += [gd.gen("Q"), gd.zero(), gd.zero()]
            elif f["name"] == "PrecomputedWeights":
                cells += [pws]
            elif f["name"] == "numRounds":
                cells += [8]
            else:
                cells += [ex_.zero_leaf(t) for t in p.layout(f["type"])]
        cfg = ex_.alloc(IPA + ".IPAConfig", label="IPAConfig", cells=cells)
        n = len(cells)
        protect_object(ex_, cfg, n, "IPAConfig")
        protect_object(ex_, srs, 3 * N, "SRS")
        protect_object(ex_, pw, 2 * N, "barycentric weights")
        protect_object(ex_, pi, 2 * (N - 1), "inverted domain")
        return (cfg,)
    I[ROOT + ".c01config"] = config

    def load_frs(ex_, s):
        n = s.len
        if is_term(n):
            raise Unsupported("symbolic slice length")
        return [ex_.load(Ptr(s.ptr.obj, s.ptr.off + i, s.ptr.sym), EL) for i in range(n)]

    def msm(ex_, args, ins):
        msm_, scalars = args
        vals = load_frs(ex_, scalars)
        if len(vals) > 256:
            ex_.panic_if(True, "MSM with more than 256 scalars")
        acc = gd.zero()
        for j, v in enumerate(vals):
            if v.tag == "zero":
                continue
            acc = gd.add(acc, GVal({"G%d" % j: v.t}, gd))
        rec("Commit", vals)
        return (elem_value(acc),)
    I["(*%s.MSMPrecomp).MSM" % BW] = msm
    I[ROOT + ".c01commitment"] = lambda ex_, args, ins: (elem_value(gd.gen("C%d" % args[2])),)

    def batchnorm(ex_, args, ins):
        rec("BatchNormalize", args[0])
        return (None,)
    I[BW + ".BatchNormalize"] = batchnorm

    def create_ipa(ex_, args, ins):
        tr, ic, commitment, a, evalp = args
        rec("CreateIPAProof", {"log": ex_.store.get(("TLOG", tr.obj, tr.off), ()), "commitment": commitment[0], "a": load_frs(ex_, a), "point": evalp, "ic": ic})
        return (ex_.zero_value(IPA + ".IPAProof"), None)
    I[IPA + ".CreateIPAProof"] = create_ipa

    def check_ipa(ex_, args, ins):
        tr, ic, commitment, proof, evalp, result = args
        rec("CheckIPAProof", {"log": ex_.store.get(("TLOG", tr.obj, tr.off), ()), "commitment": commitment[0], "point": evalp, "result": result, "ic": ic})
        okv = z3.Bool("ipa_ok")
        return (okv, None)
    I[IPA + ".CheckIPAProof"] = check_ipa

    def multiscalar(ex_, args, ins):
        points, scalars = args
        np_, ns = points.len, scalars.len
        if np_ != ns:
            return (ex_.zero_value(PT), stdlib.mk_error("length mismatch"))
        acc = gd.zero()
        vals = load_frs(ex_, scalars)
        for i in range(np_):
            g = ex_.load(Ptr(points.ptr.obj, points.ptr.off + 3 * i, points.ptr.sym), gpoint.GFR)
            acc = gd.add(acc, gd.scale(g, vals[i].t))
        rec("MultiScalar", (np_,))
        return (elem_value(acc), None)
    I[IPA + ".MultiScalar"] = multiscalar

    def batchinvert(ex_, args, ins):
        vals = load_frs(ex_, args[0])
        out = [dom.inv(v, ex_.ctx) for v in vals]
        rec("BatchInvert", len(vals))
        ptr = ex_.alloc(EL, label="BatchInvert result", cells=out, count=len(out))
        return (Slice(ptr, len(out), len(out), EL),)
    if ex.ctx.params.get("summarise_batchinvert"):
        I[FR + ".BatchInvert"] = batchinvert

    def proof(ex_, args, ins):
        cells = [ex_.zero_leaf(t) for t in ex_.prog.layout(ROOT + ".MultiProof")]
        d = ex_.prog.under(ROOT + ".MultiProof")
        off = 0
        for f in d["fields"]:
            if f["name"] == "D":
                cells[off] = gd.gen("D")
            off += ex_.prog.ncells(f["type"])
        p = ex_.alloc(ROOT + ".MultiProof", label="proof", cells=cells)
        protect_object(ex_, p, len(cells), "proof object")
        return (p,)
    I[ROOT + ".c01proof"] = proof


# ---------------------------------------------------------------- references
_LW = {}


def lagrange_weights(z):
    """w_j (j != z): value at z of the degree<255 interpolant through nodes j != z"""
    if z not in _LW:
        ws = {}
        for i in range(N):
            if i == z:
                continue
            w = Fraction(1)
            for m in range(N):
                if m != i and m != z:
                    w *= Fraction(z - m, i - m)
            ws[i] = w
        _LW[z] = ws
    return _LW[z]


def quotient_ref(f, z):
    """evaluation form of (p(X)-p(z))/(X-z) computed from the definition (independent of the repo's tables)"""
    q = [None] * N
    for j in range(N):
        if j != z:
            q[j] = (f[j] - f[z]) / (j - z)
    ws = lagrange_weights(z)
    q[z] = z3.Sum([rv(ws[j]) * q[j] for j in range(N) if j != z])
    return q


def fvars(ctx, n, zs, zero_mask=0, share=False):
    """the symbolic polynomials in creation order"""
    fs = []
    k = 0
    for i in range(n):
        if share and i > 0:
            fs.append(fs[0])
            continue
        f = []
        for j in range(N):
            if (zero_mask >> i) & 1 and j == zs[i]:
                f.append(z3.RealVal(0))
            else:
                nm = "f" if k == 0 else "f#%d" % k
                f.append(ctx.vars[nm][0])
                k += 1
        fs.append(f)
    return fs


def chal(log, label):
    for it in log:
        if it[0] == "challenge" and it[1] == label:
            return it[2].t
    return None


def expect_log(ex, got, want, what):
    obs = []
    if len(got) != len(want):
        obs.append(ob("%s: transcript absorbs exactly the specified sequence (%d items, expected %d)" % (what, len(got), len(want)), True))
        return obs
    for k, (a, b) in enumerate(zip(got, want)):
        s = tlog.item_same(ex, a, b)
        obs.append(ob("%s: transcript item %d is %s under label %r" % (what, k, b[0], b[1]), b_not(s)))
    return obs


def coeff_obligations(label, got, want_coeffs, gd):
    """got: GVal, want_coeffs: {gen: Real term}"""
    obs = []
    keys = set(got.coeffs) | set(want_coeffs)
    for k in sorted(keys, key=str):
        g = got.coeffs.get(k, 0)
        w = want_coeffs.get(k, 0)
        if not is_term(g) and not is_term(w):
            obs.append(ob("%s: coefficient of %s" % (label, k), g != w))
        else:
            obs.append(obi("%s: coefficient of %s" % (label, k), gd.term(g), gd.term(w)))
    return obs
