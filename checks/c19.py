"""C19 - batch helpers agree with the single-element operations (A_Q, all aliasing patterns of short lists)."""
import itertools
import json
import z3
from gosmt import driver as D
from gosmt.check import Report, std_replay, native_replay, run_jobs, ctx_info, _Info
from gosmt.exec import Obligation
from gosmt.field import FVal, GNARK_FR
from gosmt.harness import frame_obligations
from gosmt.values import Unsupported, is_term, b_and, b_not, b_term
from checks import ptlib as P
from checks.ptlib import BW, GEL, cells_equal, ident

PROG = None
BUILD = None
OPS = ["ElementsToBytes", "BatchToBytesUncompressed", "BatchMapToScalarField", "BatchNormalize"]


def ob(label, viol):
    return Obligation(label, viol, "assert")


def setup(ex):
    dom = P.setup_pt(ex)
    zeroz = ex.ctx.params.get("zeroz", 0)
    onez = ex.ctx.params.get("onez", 0)
    ex.ctx.coords = {}

    zerox = ex.ctx.params.get("zerox", 0)
    ex.intrinsics[BW + ".c19stale"] = lambda ex_, args, ins: (dom.sym("stale%d" % len([1 for n in ex_.ctx.names if n.startswith("stale")]) + ex_.ctx.fresh_name("stale").replace("!", "_")),)

    def base(ex_, args, ins):
        # every representation of an element is (x*lam, y*lam, lam): affine symbols x, y and a scaling symbol lam
        k = args[0]
        x = dom.const(0) if zerox == k + 1 else dom.sym("x%d" % k)
        y = dom.sym("y%d" % k, nonzero=True, ctx=ex_.ctx)
        if zeroz == k + 1:
            X, Y, Z = dom.sym("X%d" % k), dom.sym("Y%d" % k, nonzero=True, ctx=ex_.ctx), dom.const(0)
        elif onez == k + 1:
            X, Y, Z = x, y, dom.const(1)
        else:
            lam = dom.sym("lam%d" % k, nonzero=True, ctx=ex_.ctx)
            ex_.ctx.vars["lam%d" % k] = (lam.t, 0, False)
            X, Y, Z = dom.mul(x, lam), dom.mul(y, lam), lam
        ex_.ctx.coords[k] = (X, Y, Z)
        return ((X, Y, Z),)
    ex.intrinsics[BW + ".c07base"] = base


def job(op, idx, zeroz, onez, order, zerox=0):
    h = "VerifC19Batch"
    params = {"n": len(idx), "op": op, "zeroz": zeroz, "onez": onez, "zerox": zerox, "numcpu": 2 if len(idx) > 1 else 1, "map_order": order, "fork_isone": 1 if op == 3 else 0}
    for i, k in enumerate(idx):
        params["i%d" % i] = k
    ctx, ex = D.execute(PROG, BW + "." + h, intmode="bv", params=params, setup=setup, harness_pkgs=[BW], unwind=10000, prune=False)
    params.pop("map_order")
    notes = ctx.notes
    obs = []
    if op in (0, 1, 2):
        gots = [v for (l, g, v) in notes if l == "got"]
        wants = [v for (l, g, v) in notes if l == "want"]
        if op != 2:
            ln = [v for (l, g, v) in notes if l == "len"][0]
            obs.append(ob("%s returns one entry per element" % OPS[op], ln != len(idx)))
        else:
            obs.append(ob("no error for equal lengths", [v for (l, g, v) in notes if l == "err"][0] is not False))
        for i, (a, b) in enumerate(zip(gots, wants)):
            if op == 2:
                r = ident(a.t, b.t) if isinstance(a, FVal) else None
                obs.append(ob("%s[%d] equals the single-element result" % (OPS[op], i), False if r is True else (a.t != b.t if isinstance(a, FVal) else True)))
            else:
                obs.append(ob("%s[%d] equals the single-element result" % (OPS[op], i), b_not(cells_equal(list(a), list(b)))))
        if len(gots) != len(idx):
            obs.append(ob("every position produced", True))
    else:
        err = [v for (l, g, v) in notes if l == "err"][0]
        pool = [v for (l, g, v) in notes if l == "pool"][0]
        used = set(idx)
        bad = zeroz != 0 and (zeroz - 1) in used
        if bad:
            obs.append(ob("BatchNormalize returns an error when an element has Z = 0", err is not True))
        else:
            obs.append(ob("BatchNormalize succeeds", err is not False))
        for k in range(3):
            X, Y, Z = ctx.coords[k]
            gx, gy, gz = pool[3 * k], pool[3 * k + 1], pool[3 * k + 2]
            if bad or k not in used:
                for nm, a, b in (("X", gx, X), ("Y", gy, Y), ("Z", gz, Z)):
                    same = a is b or ident(a.t, b.t) is True
                    obs.append(ob("element %d coordinate %s unchanged (%s)" % (k, nm, "failed call modifies nothing" if bad else "not in the list"), not same))
            else:
                for lab_, got_, want_ in (("Z = 1", gz.t, z3.RealVal(1)), ("X' = X/Z", gx.t, X.t / Z.t), ("Y' = Y/Z", gy.t, Y.t / Z.t)):
                    if ident(got_, want_) is True:
                        obs.append(ob("element %d normalised: %s" % (k, lab_), False))
                    else:
                        # not an identity: let the solver look for a concrete representation (needed for the native replay)
                        obs.append(ob("element %d normalised: %s" % (k, lab_), got_ != want_))
    recs = D.discharge_all(ctx, extra=obs, timeout_ms=60000)
    return {"group": "%s list=%s zeroZ=%d oneZ=%d zeroX=%d order=%s" % (OPS[op], list(idx), zeroz, onez, zerox, order), "recs": recs, "info": ctx_info(ctx), "harness": h, "params": params}


def run(tier, seed):
    global PROG, BUILD
    rep = Report("C19", tier, seed)
    BUILD = D.Build("c19", [BW], [BW + ".VerifC19Batch"], allow_extra=[GNARK_FR, P.GB])
    try:
        PROG = BUILD.load()
    except Exception as e:  # noqa
        rep.inconclusive_group("load", str(e))
        return rep.finish()
    maxn = 3 if tier == "quick" else 4
    lists = [()] + [p for n in range(1, maxn + 1) for p in itertools.product(range(3), repeat=n)]
    jobs = []
    for idx in lists:
        for op in range(3):
            jobs.append((op, idx, 0, 0, "insertion"))
            if idx:
                jobs.append((op, idx, 0, idx[0] + 1, "insertion"))
                jobs.append((op, idx, 0, 0, "insertion", idx[-1] + 1))
        for order in ("insertion", "reverse"):
            jobs.append((3, idx, 0, 0, order))
            for zz in (1, 2, 3):
                jobs.append((3, idx, zz, 0, order))
            if idx:
                jobs.append((3, idx, 0, idx[-1] + 1, order))
    rep.bounds = {"lists": "every list of length 0..%d of pointers into a pool of three elements (all aliasing patterns)" % maxn,
                  "representations": "coordinates free symbols (Y, Z non-zero), optional Z = 1, one un-normalisable element (Z = 0) at each pool position",
                  "map iteration order": "insertion and reverse (BatchNormalize de-duplication map)", "NumCPU": "2 workers for the parallel conversion",
                  "outside": "lists longer than %d (worker partition boundaries are C20)" % maxn}
    rep.assumptions = ["field operations by contract; gnark BatchInvert / FromProj executed from their SSA", "sign predicate and encodings as in C07"]

    def on(a, item):
        inner0 = std_replay(BUILD, BW, BW + "." + item["harness"], item["params"])

        def inner(rec):
            from checks.c07 import PMOD
            r2 = dict(rec)
            r2["model"] = {k: P.real_to_mod(v, PMOD) for k, v in (rec.get("model") or {}).items() if k.startswith("lam")}
            return inner0(r2)
        rep.add(item["group"], item["recs"], _Info(item["info"]), key_prefix=item["harness"] + OPS[item["params"]["op"]], sample=(len(rep.samples) < 8), replay=inner)
    run_jobs(rep, job, jobs, name=lambda a: "%s %s" % (OPS[a[0]], a[1:]), on_result=on)
    return rep.finish(explanation="ElementsToBytes / BatchToBytesUncompressed / BatchMapToScalarField / BatchNormalize executed from SSA on symbolic coordinates and compared position by position with the single-element methods.")


def replay(path):
    d = json.load(open(path))
    build = D.Build("c19", [BW], [BW + ".VerifC19Batch"])
    res = native_replay(build, d["pkg"], d["entry"], d["params"], d["values"], tag="manual")
    print(res["output"])
    return 1 if (res["failed"] or res["panics"]) else 0
