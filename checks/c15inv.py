"""C15 / Inverse: the binary extended-Euclid loop of fr.Element.Inverse, decided by a loop invariant (Floyd/Hoare cut
at the two loop heads of the real SSA): partial correctness for EVERY input, no unrolling.

phi is the Z_r-linear map t -> t * R^2 * x^-1 mod r (x the non-zero input, R = 2^256).  It is uninterpreted for the
solver; the instances of its defining facts that are handed over are all true of the real map:
  phi(r) = 0, phi(x) = R^2 mod r, phi(t) < r,
  T even, t = T/2      ->  2 phi(t) = phi(T) (mod r)
  a >= b, d = a - b    ->  phi(d) = phi(a) - phi(b) (mod r)
Invariant at both loop heads:  r_ = phi(u), s = phi(v), r_ < r, s < r.
Exit (u = 1 or v = 1) then gives z = phi(1) = R^2 x^-1 mod r, the Montgomery form of the inverse (paper step)."""
import random
import z3
from gosmt import driver as D
from gosmt.check import ctx_info, native_replay
from gosmt.exec import Obligation
from gosmt.values import Ptr, b_and, b_not, b_term, is_term
from checks.frlib import FR, Q

W = 1 << 64
FN = "(*%s.Element).Inverse" % FR
B = 258
PHI = z3.Function("phi_inv", z3.BitVecSort(256), z3.BitVecSort(256))
QV = z3.BitVecVal(Q, 256)
C = pow(1 << 256, 2, Q)


def cat(limbs):
    return z3.Concat(*[l if is_term(l) else z3.BitVecVal(l, 64) for l in reversed(list(limbs))])


def zx(t):
    return z3.ZeroExt(B - 256, t)


def half_fact(t, T):
    """T even, t = T/2 -> 2 phi(t) = phi(T) or phi(T) + r; phi(t) < r"""
    hyp = z3.And(z3.Extract(0, 0, T) == 0, t == z3.LShR(T, 1))
    two = zx(PHI(t)) + zx(PHI(t))
    return z3.Implies(hyp, z3.And(z3.Or(two == zx(PHI(T)), two == zx(PHI(T)) + zx(QV)), z3.ULT(PHI(t), QV)))


def diff_fact(a, b, d):
    """a >= b, d = a - b -> phi(d) = phi(a) - phi(b) mod r, written the way the code computes it (values of phi are < r)"""
    hyp = z3.And(z3.UGE(a, b), d == a - b)
    pa, pb = PHI(a), PHI(b)
    return z3.Implies(hyp, PHI(d) == z3.If(z3.ULT(pa, pb), pa - pb + QV, pa - pb))


def loop_heads(fn):
    """targets of back edges (p -> h with h dominating p), dominators by the iterative algorithm"""
    blocks = fn["blocks"]
    n = len(blocks)
    dom = [set(range(n)) for _ in range(n)]
    dom[0] = {0}
    changed = True
    while changed:
        changed = False
        for i in range(1, n):
            ps = blocks[i]["preds"]
            if not ps:
                continue
            d = set.intersection(*[dom[p] for p in ps]) | {i}
            if d != dom[i]:
                dom[i] = d
                changed = True
    return sorted({h for i in range(n) for h in blocks[i]["succs"] if h in dom[i]})


def setup(ex):
    from checks.c15 import setup_fr
    setup_fr(ex)
    fn = ex.prog.funcs[FN]
    allocs = {}
    for b in fn["blocks"]:
        for ins in b["instrs"]:
            if ins["op"] == "Alloc" and ins.get("comment") in ("u", "v", "r", "s"):
                allocs[ins["comment"]] = ins["name"]
    if set(allocs) != {"u", "v", "r", "s"}:
        raise D.Unsupported("Inverse: working variables u, v, r, s not found in the SSA")
    # loop heads: blocks in a cycle with a predecessor outside... taken as every block that is the target of a back edge
    heads = loop_heads(fn)
    ctx = ex.ctx
    ctx.inv_heads = heads
    ctx.inv_joins = []

    def state(ex_, fr):
        out = {}
        for k, reg in allocs.items():
            p = ex_.store[("R", fr.id, "r:" + reg, fr.fn["_regtype"].get("r:" + reg))]
            out[k] = cat([ex_.load(Ptr(p.obj, p.off + i, p.sym), "uint64") for i in range(4)])
        return out

    def handler(ex_, fr, blk, first):
        st = state(ex_, fr)
        prev = {k: ex_.store.get(("LCSTATE", fr.id, k)) for k in allocs}
        if any(v is None for v in prev.values()):
            prev = None
        g = ex_.guard
        cases = [(True, "")]
        hyps = []
        if prev is None:
            # initiation: facts defining phi for this input
            X = ctx.inv_x
            ctx.add_fact(PHI(QV) == 0)
            ctx.add_fact(z3.Implies(X != 0, PHI(X) == z3.BitVecVal(C, 256)))
        else:
            # instances of the linearity of phi relating this state to the state assumed at the last cut; they are
            # hypotheses of these obligations only (true facts, kept local to keep the queries small)
            for k1 in ("v", "u"):
                hyps.append(half_fact(st[k1], prev[k1]))
            hyps.append(diff_fact(prev["v"], prev["u"], st["v"]))
            hyps.append(diff_fact(prev["u"], prev["v"], st["u"]))
            cases = [(z3.UGE(prev["v"], prev["u"]), " [v >= u]"), (z3.ULT(prev["v"], prev["u"]), " [v < u]")]
        what = "initiation" if prev is None else "preservation"
        goals = lambda: (("s = phi(v)", st["s"] == PHI(st["v"])), ("r = phi(u)", st["r"] == PHI(st["u"])), ("r, s < modulus", z3.And(z3.ULT(st["r"], QV), z3.ULT(st["s"], QV))))
        if prev is not None and blk in ctx.inv_joins:
            # after the subtraction step: two phi-free bit-vector lemmas per case (what the limb code computes), then
            # the invariant from the lemmas and the linearity instance by equational reasoning
            def subq(a, b):
                return z3.If(z3.ULT(a, b), a - b + QV, a - b)
            V, U, S, R_ = prev["v"], prev["u"], prev["s"], prev["r"]
            for cg, cl, big, small, pb, ps, kb, ks, kpb, kps in ((z3.UGE(V, U), " [v >= u]", V, U, S, R_, "v", "u", "s", "r"), (z3.ULT(V, U), " [v < u]", U, V, R_, S, "u", "v", "r", "s")):
                l1 = z3.And(st[kb] == big - small, st[ks] == small)
                l2 = z3.And(st[kpb] == subq(pb, ps), st[kps] == ps)
                ctx.obligations.append(Obligation("Inverse subtraction step at block %d%s: the larger of u, v is replaced by the difference, the other kept" % (blk, cl), b_and(g, cg, z3.Not(l1)), "assert"))
                for bg, bl in ((z3.ULT(pb, ps), "borrow"), (z3.UGE(pb, ps), "no borrow")):
                    ctx.obligations.append(Obligation("Inverse subtraction step at block %d%s, %s: its companion is replaced by the difference mod r, the other kept" % (blk, cl, bl), b_and(g, cg, bg, z3.Not(l2)), "assert"))
                lin = diff_fact(big, small, big - small)
                for lab, c in goals():
                    ctx.obligations.append(Obligation("Inverse loop invariant preservation at block %d%s (from the two step lemmas): %s" % (blk, cl, lab), b_and(g, cg, l1, l2, lin, z3.Not(c)), "assert"))
        else:
            for cg, cl in cases:
                for lab, c in goals():
                    ctx.obligations.append(Obligation("Inverse loop invariant %s at block %d%s: %s" % (what, blk, cl, lab), b_and(g, cg, z3.And(*hyps) if hyps else True, z3.Not(c)), "assert"))
        if not first:
            return
        # havoc the four working variables, assume the invariant
        fresh = {}
        for k, reg in allocs.items():
            p = ex_.store[("R", fr.id, "r:" + reg, fr.fn["_regtype"].get("r:" + reg))]
            n = ctx.fresh_name("inv_%s_b%d" % (k, blk))
            limbs = [z3.BitVec("%s_%d" % (n, i), 64) for i in range(4)]
            for i in range(4):
                ex_.store_to(Ptr(p.obj, p.off + i, p.sym), limbs[i], "uint64")
            fresh[k] = cat(limbs)
        for k in fresh:
            ex_.write(("LCSTATE", fr.id, k), fresh[k])
        ex_.assume(z3.And(fresh["s"] == PHI(fresh["v"]), fresh["r"] == PHI(fresh["u"]), z3.ULT(fresh["r"], QV), z3.ULT(fresh["s"], QV)))
    # one more cut point inside the outer body: the block where the two subtraction branches meet (the exit tests follow it)
    joins = [i for i, b in enumerate(fn["blocks"]) if i not in heads and len(b["preds"]) >= 3]
    if len(joins) != 1:
        raise D.Unsupported("Inverse: merge block of the subtraction branches not identified (%s)" % joins)
    ctx.inv_heads = heads + joins
    ctx.inv_joins = joins
    ctx.loop_cuts[FN] = {h: handler for h in heads + joins}


def job(alias):
    from checks import c15
    h = "VerifC15Inverse"
    params = {"alias": alias}

    def setup2(ex):
        setup(ex)
    ctx, ex = None, None

    def pre(ex_):
        setup(ex_)
        ex_.ctx.inv_x = cat([z3.BitVec("x%d" % i, 64) for i in range(4)])
    ctx, ex = D.execute(c15.PROG, FR + "." + h, intmode="bv", params=params, setup=pre, harness_pkgs=[FR], globals_init=c15.GLOBALS)
    X = cat([ctx.vars["x%d" % i][0] for i in range(4)])
    ctx.add_fact(z3.ULT(X, QV))
    zn = [v for (l, g, v) in ctx.notes if l == "z"]
    obs = []
    for (l, g, v) in ctx.notes:
        if l != "z":
            continue
        Z = cat(v)
        obs.append(Obligation("Inverse(0) = 0", b_and(g, z3.And(X == 0, Z != 0)), "assert"))
        obs.append(Obligation("Inverse(x) = phi(1) = R^2 x^-1 mod r for x != 0", b_and(g, z3.And(X != 0, Z != PHI(z3.BitVecVal(1, 256)))), "assert"))
        obs.append(Obligation("Inverse result fully reduced", b_and(g, z3.Not(z3.ULT(Z, QV))), "assert"))
    recs = D.discharge_all(ctx, extra=obs, timeout_ms=int(__import__("os").environ.get("VERIF_INV_TIMEOUT_MS", "240000")))
    info = ctx_info(ctx)
    info["loop_heads"] = ctx.inv_heads
    return {"group": "Inverse alias=%d [loop invariant]" % alias, "recs": recs, "info": info, "harness": h, "params": params, "mode": "inv"}


def judge(vals, notes):
    x = sum(int(vals.get("x%d" % i, 0)) << (64 * i) for i in range(4))
    z = notes["z"][0]
    z = sum(int(l) << (64 * i) for i, l in enumerate(z))
    want = 0 if x % Q == 0 else C * pow(x, -1, Q) % Q
    return z != want


def make_replay(build, params):
    def cb(rec):
        """the model fixes a loop state, not necessarily a reachable one: inputs are searched natively"""
        m = rec.get("model") or {}
        rng = random.Random(7)
        x0 = sum(int(m.get("x%d" % i, 0)) << (64 * i) for i in range(4)) % Q
        cands = [x0, 1, 2, 3, Q - 1, Q - 2, (1 << 256) % Q, C, (Q + 1) // 2, 1 << 64, 1 << 128, 1 << 192, (1 << 192) - 1] + [rng.randrange(1, Q) for _ in range(12)]
        last = (False, None)
        for x in cands:
            vals = {"x%d" % i: (x >> (64 * i)) & (W - 1) for i in range(4)}
            res = native_replay(build, FR, FR + ".VerifC15Inverse", params, vals, tag="inverse")
            if not res["built"]:
                return None, res["path"]
            try:
                bad = judge(vals, res["notes"])
            except Exception:
                bad = None
            last = (bool(bad) or bool(res["panics"]), res["path"])
            if last[0]:
                return last
        return last
    return cb
