"""C08 - group operations: wrappers of banderwagon.Element under every aliasing pattern (group domain G)."""
import json
import z3
from gosmt import driver as D
from gosmt import stdlib, gpoint, bigint
from gosmt.bigint import UNMONT
from gosmt.group import GDom, GVal
from gosmt.check import Report, std_replay, native_replay, run_jobs, ctx_info, _Info
from gosmt.exec import Obligation
from gosmt.harness import frame_obligations, protect_object
from gosmt.values import Unsupported, Ptr, is_term, b_and, b_not
from checks.frlib import *

BW = D.MOD + "/banderwagon"
PROG = None
BUILD = None
GLOBALS = None
OPS = ["Add", "Sub", "Double", "Neg", "Set", "SetIdentity", "ScalarMul", "AddMixed"]


def ob(label, viol):
    return Obligation(label, viol, "assert")


def setup(ex):
    stdlib.install(ex)
    bigint.install(ex)
    route_generic(ex)
    bigint.install_mont(ex, FR, Q, FR + ".rSquare")
    stdlib.install_binary_int(ex)
    ex.global_zero.add(FR + ".bigIntPool")
    gd = GDom("int")

    def scalar_of_big(ex_, bigptr):
        return ex_.load(bigptr, bigint.BIG).v
    gpoint.install(ex, gd, scalar_of_big=scalar_of_big)
    ex.intrinsics[BW + ".c08elem"] = lambda ex_, args, ins: ((gd.gen("kappa%d" % args[0]), gd.zero(), gd.zero()),)

    def gen(ex_, tid):
        p = ex_.alloc(tid, label="global Generator", cells=[gd.gen("GEN"), gd.zero(), gd.zero()])
        protect_object(ex_, p, 3, "package-level Generator")
        return p
    ex.global_override[BW + ".Generator"] = gen
    old = ex.global_override[BW + ".Identity"]

    def ident(ex_, tid):
        p = old(ex_, tid)
        protect_object(ex_, p, 3, "package-level Identity")
        return p
    ex.global_override[BW + ".Identity"] = ident


def job(op, r, a, b):
    h = "VerifC08Ops"
    params = {"op": op, "recv": r, "a": a, "b": b}
    ctx, ex = D.execute(PROG, BW + "." + h, intmode="int", params=params, setup=setup, harness_pkgs=[BW], globals_init=GLOBALS, unwind=10000, prune=False)
    gd = ctx.gd
    pool = [v for (l, g, v) in ctx.notes if l == "pool"][0]
    vals = [pool[3 * i] for i in range(3)]
    k = [gd.gen("kappa%d" % i) for i in range(3)]
    S = intval([ctx.vars["s%d" % i][0] for i in range(4)])
    ctx.add_fact(S < Q)
    if op == 0 or op == 7:
        want = gd.add(k[a], k[b])
    elif op == 1:
        want = gd.add(k[a], k[b], -1)
    elif op == 2:
        want = gd.add(k[a], k[a])
    elif op == 3:
        want = gd.neg(k[a])
    elif op == 4:
        want = k[a]
    elif op == 5:
        want = gd.zero()
    else:
        want = gd.scale(k[a], UNMONT(S))
    obs = []
    for i in range(3):
        exp = want if i == r else k[i]
        same = gd.same(ex, vals[i], exp)
        obs.append(ob(("receiver holds %s of the operands' previous values" % OPS[op]) if i == r else ("pool element %d (not the receiver) unchanged" % i), b_not(same)))
    rr = [v for (l, g, v) in ctx.notes if l == "ret_is_recv"][0]
    obs.append(ob("the method returns its receiver", b_not(rr)))
    obs += frame_obligations(ex)
    recs = D.discharge_all(ctx, extra=obs, timeout_ms=60000)
    return {"group": "%s recv=%d a=%d b=%d" % (OPS[op], r, a, b), "recs": recs, "info": ctx_info(ctx), "harness": h, "params": params}


def run(tier, seed):
    global PROG, BUILD, GLOBALS
    rep = Report("C08", tier, seed)
    BUILD = D.Build("c08", [BW], [BW + ".VerifC08Ops"], allow_extra=["encoding/binary"])
    try:
        PROG = BUILD.load()
        stdlib.annotate_used_results(PROG)
        GLOBALS = BUILD.dump_globals({FR: ["qElement", "rSquare", "_modulus"]})
    except Exception as e:  # noqa
        rep.inconclusive_group("load", str(e))
        return rep.finish()
    jobs = []
    for op in range(8):
        for r in range(3):
            for a in range(3):
                bs = range(3) if op in (0, 1, 7) else [0]
                if op == 5 and a != 0:
                    continue
                for b in bs:
                    jobs.append((op, r, a, b))
    rep.bounds = {"aliasing": "receiver and operands each chosen from a pool of three elements: all %d (operation, pattern) combinations" % len(jobs),
                  "scalar": "all four limbs symbolic (< r)", "outside": "the curve formulas and the GLV scalar multiplication inside gnark-crypto (summarised by the group law); s+t / r*P laws are consequences"}
    rep.assumptions = ["gnark PointProj operations are the group law on formal linear combinations; ScalarMultiplication(p, k) = k*p for the integer k it is given",
                       "MONT/UNMONT bijection (C15); math/big stub"]

    def on(a, item):
        rep.add(item["group"], item["recs"], _Info(item["info"]), key_prefix=item["harness"] + OPS[item["params"]["op"]], sample=(len(rep.samples) < 6),
                replay=std_replay(BUILD, BW, BW + "." + item["harness"], item["params"]))
    run_jobs(rep, job, jobs, name=lambda a: "%s %s" % (OPS[a[0]], a[1:]), on_result=on)
    return rep.finish(explanation="banderwagon.Element Add/Sub/Double/Neg/Set/SetIdentity/ScalarMul/AddMixed executed from SSA in the group domain under every aliasing pattern of a 3-element pool.")


def replay(path):
    d = json.load(open(path))
    build = D.Build("c08", [BW], [BW + ".VerifC08Ops"])
    res = native_replay(build, d["pkg"], d["entry"], d["params"], d["values"], tag="manual")
    print(res["output"])
    return 1 if (res["failed"] or res["panics"]) else 0
