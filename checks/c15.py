"""C15 - scalar-field arithmetic agrees with integer arithmetic modulo r (limb level, all inputs)."""
import json
import z3
from gosmt import driver as D
from gosmt.check import Report, native_replay, run_jobs, ctx_info, _Info
from gosmt.exec import Obligation
from gosmt.values import Unsupported, is_term, b_and, b_not, b_term
from checks.frlib import *

PROG = None
TIMEOUT_MS = 300000
BUILD = None
GLOBALS = None


def ob(label, viol):
    return Obligation(label, viol, "assert")


def alias_xy(ctx, params):
    X = var_limbs(ctx, "x")
    Y = var_limbs(ctx, "y") if "y0" in ctx.vars else None
    if params.get("alias", 0) in (3, 4):
        Y = X
    return X, Y


# ------------------------------------------------------------------ BV-mode specifications
def spec_bv(h, ctx, params):
    q = z3.BitVecVal(Q, 320)
    obs = []
    X, Y = alias_xy(ctx, params)
    xv = bvval(X)
    ctx.add_fact(z3.ULT(xv, q) if h != "VerifC15Reduce" else z3.ULT(xv, 2 * q))
    if Y is not None and Y is not X:
        ctx.add_fact(z3.ULT(bvval(Y), q))
    yv = bvval(Y) if Y is not None else None

    def res(label="z"):
        return bvval(list(note(ctx, label)))

    def eqmod(label, zv, expr_mod_q):
        obs.append(ob(label + ": result fully reduced (< r)", b_not(z3.ULT(zv, q))))
        obs.append(ob(label + ": result equals the integer operation modulo r", zv != expr_mod_q))

    if h == "VerifC15Add":
        s = xv + yv
        eqmod("add", res(), z3.If(z3.UGE(s, q), s - q, s))
    elif h == "VerifC15Sub":
        eqmod("sub", res(), z3.If(z3.UGE(xv, yv), xv - yv, xv + q - yv))
    elif h == "VerifC15Double":
        s = xv + xv
        eqmod("double", res(), z3.If(z3.UGE(s, q), s - q, s))
    elif h == "VerifC15Neg":
        eqmod("neg", res(), z3.If(xv == 0, xv, q - xv))
    elif h == "VerifC15Reduce":
        eqmod("reduce", res(), z3.If(z3.UGE(xv, q), xv - q, xv))
    elif h == "VerifC15Butterfly":
        if params["alias"] == 0:
            s = xv + yv
            eqmod("butterfly a+b", res("z"), z3.If(z3.UGE(s, q), s - q, s))
            eqmod("butterfly a-b", res("w"), z3.If(z3.UGE(xv, yv), xv - yv, xv + q - yv))
        else:
            obs.append(ob("butterfly aliased: defined result (t - (a+a))", res("z") != res("w")))
    elif h == "VerifC15MulByConstant":
        c = params["c"]
        zv = res()
        obs.append(ob("mulByConstant(%d): result fully reduced (< r)" % c, b_not(z3.ULT(zv, q))))
        obs.append(ob("mulByConstant(%d): c*x = z + k*r for some 0 <= k <= c" % c, b_not(z3.Or([xv * c == zv + k * q for k in range(c + 1)]))))
    elif h == "VerifC15API":
        op = params["op"]
        s = xv + yv
        exp = [z3.If(z3.UGE(s, q), s - q, s), z3.If(z3.UGE(xv, yv), xv - yv, xv + q - yv),
               z3.If(xv == 0, xv, q - xv), z3.If(z3.UGE(xv + xv, q), xv + xv - q, xv + xv)][op]
        eqmod("API op %d through the dispatch layer" % op, res(), exp)
    elif h == "VerifC15Bits":
        i = ctx.vars["i"][0]
        bit = note(ctx, "bit")
        bl = note(ctx, "bitlen")
        i320 = z3.ZeroExt(256, i)
        expbit = z3.If(z3.ULT(i, 256), z3.LShR(xv, i320) & 1, z3.BitVecVal(0, 320))
        obs.append(ob("Bit(i) is bit i of the value (0 beyond 256)", z3.ZeroExt(256, bit) != expbit))
        bl320 = z3.ZeroExt(256, bl)
        one = z3.BitVecVal(1, 320)
        obs.append(ob("BitLen: value < 2^BitLen", b_not(z3.And(z3.ULE(bl320, 256), z3.ULT(xv, one << bl320)))))
        obs.append(ob("BitLen: minimal", b_not(z3.Or(bl == 0, z3.UGE(xv, one << (bl320 - 1))))))
    else:
        raise Unsupported("no spec for " + h)
    return obs


def judge_bv(h, params, values, notes):
    x = model_elem(values, "x")
    y = x if params.get("alias", 0) in (3, 4) else model_elem(values, "y")
    z = pyval(notes["z"][0]) if "z" in notes else None
    if h == "VerifC15Add":
        return z != (x + y) % Q
    if h == "VerifC15Sub":
        return z != (x - y) % Q
    if h == "VerifC15Double":
        return z != (2 * x) % Q
    if h == "VerifC15Neg":
        return z != (-x) % Q
    if h == "VerifC15Reduce":
        return z != x % Q
    if h == "VerifC15Butterfly":
        w = pyval(notes["w"][0])
        if params["alias"] == 0:
            return z != (x + y) % Q or w != (x - y) % Q
        return z != w
    if h == "VerifC15MulByConstant":
        return z != (x * params["c"]) % Q
    if h == "VerifC15API":
        return z != [(x + y) % Q, (x - y) % Q, (-x) % Q, (2 * x) % Q][params["op"]]
    if h == "VerifC15Bits":
        i = int(values.get("i", 0))
        bit = int(notes["bit"][0])
        bl = int(notes["bitlen"][0])
        return bit != ((x >> i) & 1 if i < 256 else 0) or bl != x.bit_length()
    return None


# ------------------------------------------------------------------ Int-mode specifications (Montgomery)
def schoolbook(ctx, X, Y):
    """sum_{ij} P(x_i,y_j) W^(i+j) with the abstract products recorded by the Mul64 intrinsic"""
    s = 0
    n = 0
    for i in range(4):
        for j in range(4):
            a, b = X[i], Y[j]
            if not is_term(a) or not is_term(b):
                s = s + (a * b) * (W ** (i + j))
                n += 1
                continue
            key = tuple(sorted((a.get_id(), b.get_id())))
            P = ctx.products.get(key)
            if P is None:
                raise Unsupported("product of limbs x%d*y%d not computed by the code" % (i, j))
            s = s + P * (W ** (i + j))
            n += 1
    return s


def spec_int(h, ctx, params):
    obs = []
    X = var_limbs(ctx, "x") if "x0" in ctx.vars else None
    Y = var_limbs(ctx, "y") if "y0" in ctx.vars else None
    if params.get("alias", 0) in (3, 4):
        Y = X
    if X is not None:
        ctx.add_fact(intval(X) < (2 * Q if h == "VerifC15Reduce" else Q))
    if Y is not None and Y is not X:
        ctx.add_fact(intval(Y) < Q)

    def mont(label, Z, S, wits):
        M = sum(m * (W ** i) for i, m in enumerate(wits))
        obs.append(ob(label + ": result fully reduced (< r)", b_not(Z < Q)))
        obs.append(ob(label + ": Montgomery identity z*2^256 = x*y + M*r (z or z+r)",
                      b_not(z3.Or(Z * (W ** 4) == S + M * Q, (Z + Q) * (W ** 4) == S + M * Q))))

    lin = {"VerifC15Add": lambda x, y: x + y, "VerifC15Sub": lambda x, y: x - y, "VerifC15Double": lambda x, y: 2 * x,
           "VerifC15Neg": lambda x, y: -x, "VerifC15Reduce": lambda x, y: x}
    if h in lin or h == "VerifC15API" or h == "VerifC15Butterfly":
        XV = intval(X)
        YV = intval(Y) if Y is not None else None

        def modspec(label, Z, expr, ks):
            obs.append(ob(label + ": result fully reduced (< r)", b_not(z3.And(Z >= 0, Z < Q))))
            obs.append(ob(label + ": result = integer operation + k*r", b_not(z3.Or([Z == expr + k * Q for k in ks]))))
        if h in lin:
            modspec(h[8:].lower(), intval(list(note(ctx, "z"))), lin[h](XV, YV), (-1, 0, 1))
        elif h == "VerifC15API":
            f = [lin["VerifC15Add"], lin["VerifC15Sub"], lin["VerifC15Neg"], lin["VerifC15Double"]][params["op"]]
            modspec("API op %d through the dispatch layer" % params["op"], intval(list(note(ctx, "z"))), f(XV, YV), (-1, 0, 1))
        elif params["alias"] == 0:
            modspec("butterfly a+b", intval(list(note(ctx, "z"))), XV + YV, (-1, 0))
            modspec("butterfly a-b", intval(list(note(ctx, "w"))), XV - YV, (0, 1))
        else:
            obs.append(ob("butterfly aliased: defined result", intval(list(note(ctx, "z"))) != intval(list(note(ctx, "w")))))
    elif h == "VerifC15Mul":
        if len(ctx.mulwit) != 4:
            raise Unsupported("expected 4 Montgomery quotient words, found %d" % len(ctx.mulwit))
        Z = intval(list(note(ctx, "z")))
        mont("mul", Z, schoolbook(ctx, X, Y), ctx.mulwit)
    elif h == "VerifC15FromMont":
        if len(ctx.mulwit) != 4:
            raise Unsupported("expected 4 Montgomery quotient words, found %d" % len(ctx.mulwit))
        mont("fromMont", intval(list(note(ctx, "z"))), intval(X), ctx.mulwit)
    elif h == "VerifC15SetUint64":
        if len(ctx.mulwit) != 8:
            raise Unsupported("expected 8 Montgomery quotient words, found %d" % len(ctx.mulwit))
        v = ctx.vars["v"][0]
        R2 = pyval(GLOBALS[FR + ".rSquare"])
        obs.append(ob("constant rSquare = 2^512 mod r", (R2 - (1 << 512)) % Q != 0 or R2 >= Q))
        Zm = intval(list(note(ctx, "z")))
        mont("SetUint64 (to Montgomery form)", Zm, v * R2, ctx.mulwit[:4])
    elif h == "VerifC15MulByConstant":
        c = params["c"]
        Z = intval(list(note(ctx, "z")))
        obs.append(ob("mulByConstant(%d): result fully reduced (< r)" % c, b_not(Z < Q)))
        obs.append(ob("mulByConstant(%d): c*x = z + k*r for some 0 <= k <= c" % c, b_not(z3.Or([intval(X) * c == Z + k * Q for k in range(c + 1)]))))
    elif h == "VerifC15Cmp":
        if len(ctx.mulwit) != 8:
            raise Unsupported("expected 8 Montgomery quotient words, found %d" % len(ctx.mulwit))
        XR = intval(list(note(ctx, "xr")))
        YR = intval(list(note(ctx, "yr")))
        cmp_ = note(ctx, "cmp")
        obs.append(ob("Cmp = +1 when x > y on regular values", z3.And(XR > YR, cmp_ != 1)))
        obs.append(ob("Cmp = -1 when x < y on regular values", z3.And(XR < YR, cmp_ != -1)))
        xr, yr = list(note(ctx, "xr")), list(note(ctx, "yr"))
        obs.append(ob("Cmp = 0 when x = y on regular values (limbwise equality)", z3.And(z3.And([a == b for a, b in zip(xr, yr)]), cmp_ != 0)))
        eq = note(ctx, "eq")
        from gosmt.values import b_term
        obs.append(ob("Equal iff same limbs", b_term(eq) != (intval(X) == intval(Y))))
        obs.append(ob("IsZero iff value 0", b_term(note(ctx, "zero")) != (intval(X) == 0)))
        obs.append(ob("LexicographicallyLargest iff regular value > (r-1)/2", b_term(note(ctx, "lexl")) != (XR > (Q - 1) // 2)))
    else:
        raise Unsupported("no spec for " + h)
    return obs


def judge_int(h, params, values, notes):
    if h in ("VerifC15Add", "VerifC15Sub", "VerifC15Double", "VerifC15Neg", "VerifC15Reduce", "VerifC15API", "VerifC15Butterfly"):
        return judge_bv(h, params, values, notes)
    Rinv = pow(1 << 256, -1, Q)
    x = model_elem(values, "x")
    y = x if params.get("alias", 0) in (3, 4) else model_elem(values, "y")
    if h == "VerifC15Mul":
        return pyval(notes["z"][0]) != x * y * Rinv % Q
    if h == "VerifC15FromMont":
        return pyval(notes["z"][0]) != x * Rinv % Q
    if h == "VerifC15SetUint64":
        v = int(values.get("v", 0))
        return pyval(notes["z"][0]) != v * (1 << 256) % Q or pyval(notes["zr"][0]) != v % Q
    if h == "VerifC15MulByConstant":
        return pyval(notes["z"][0]) != x * params["c"] % Q
    if h == "VerifC15Cmp":
        xr, yr = x * Rinv % Q, y * Rinv % Q
        c = int(notes["cmp"][0])
        return (c != (xr > yr) - (xr < yr) or bool(notes["eq"][0]) != (x == y) or bool(notes["zero"][0]) != (x == 0)
                or bool(notes["lexl"][0]) != (xr > (Q - 1) // 2) or pyval(notes["xr"][0]) != xr)
    return None


BV_JOBS = ([("VerifC15Add", {"alias": a}) for a in range(5)] + [("VerifC15Sub", {"alias": a}) for a in range(5)] +
           [("VerifC15Double", {"alias": a}) for a in range(2)] + [("VerifC15Neg", {"alias": a}) for a in range(2)] +
           [("VerifC15Reduce", {})] + [("VerifC15Butterfly", {"alias": a}) for a in range(2)] +
           [("VerifC15MulByConstant", {"c": c}) for c in (0, 1, 2)] + [("VerifC15API", {"op": o}) for o in range(4)] +
           [("VerifC15Bits", {})])
INT_JOBS = ([("VerifC15MulByConstant", {"c": c}) for c in (3, 5)] + [("VerifC15Mul", {"alias": a}) for a in range(5)] + [("VerifC15FromMont", {}), ("VerifC15SetUint64", {}), ("VerifC15Cmp", {})])


def setup_havoc(ex):
    """bit-vector run with 64x64 products replaced by unconstrained results (over-approximation): everything before the
    final conditional subtraction is arbitrary, so the reduction tail is checked for EVERY pre-reduction value"""
    setup_fr(ex)

    def havoc_mul64(ex_, args, ins):
        return (z3.BitVec(ex_.ctx.fresh_name("hv_hi"), 64), z3.BitVec(ex_.ctx.fresh_name("hv_lo"), 64))
    ex.intrinsics["math/bits.Mul64"] = havoc_mul64

    def cut(ex_, fr):
        zp = ex_.store[("R", fr.id, "p:z", fr.fn["_regtype"].get("p:z"))]
        from gosmt.values import Ptr as P_
        # havoc at the cut point: the pre-reduction value is an arbitrary 4-limb value (sound over-approximation)
        fresh = [z3.BitVec(ex_.ctx.fresh_name("T"), 64) for _ in range(4)]
        for i in range(4):
            ex_.store_to(P_(zp.obj, zp.off + i, zp.sym), fresh[i], "uint64")
            ex_.ctx.vars["T%d" % i] = (fresh[i], 64, False)
        ex_.ctx.pre_reduce = fresh
    ex.ctx.cuts[FR + "._mulGeneric"] = cut
    ex.ctx.cuts[FR + "._fromMontGeneric"] = cut


def job_tail(h, params):
    ctx, ex = D.execute(PROG, FR + "." + h, intmode="bv", params=params, setup=setup_havoc, harness_pkgs=[FR], globals_init=GLOBALS)
    obs = []
    pre = getattr(ctx, "pre_reduce", None)
    if pre is None:
        raise Unsupported("reduction tail not reached")
    q = z3.BitVecVal(Q, 320)
    T = bvval(pre)
    Z = bvval(list(note(ctx, "z")))
    ctx.add_fact(z3.ULT(T, 2 * q))
    obs.append(ob("reduction tail: for every pre-reduction value T < 2r the result is T mod r (fully reduced)", Z != z3.If(z3.UGE(T, q), T - q, T)))
    recs = D.discharge_all(ctx, extra=obs, timeout_ms=TIMEOUT_MS)
    return {"group": "%s %s [bv, products havocked: final conditional subtraction for all T < 2r]" % (h, params), "recs": recs, "info": ctx_info(ctx), "harness": h, "params": params, "mode": "tail"}


def setup_cmp_bv(ex):
    setup_fr(ex)

    def frommont(ex_, args, ins):
        p = args[0]
        from gosmt.values import Ptr as P_
        cur = [ex_.load(P_(p.obj, p.off + i, p.sym), "uint64") for i in range(4)]
        key = tuple(c.get_id() if is_term(c) else c for c in cur)
        memo = ex_.ctx.__dict__.setdefault("unmont_memo", {})
        if key in memo:
            ls = memo[key]
        else:
            k = len(memo)
            ls = [z3.BitVec("reg%s%d" % ("AB"[k] if k < 2 else str(k), i), 64) for i in range(4)]
            ex_.ctx.add_fact(z3.ULT(z3.Concat(ls[3], ls[2], ls[1], ls[0]), z3.BitVecVal(Q, 256)))
            for i in range(4):
                ex_.ctx.vars["reg%s%d" % ("AB"[k] if k < 2 else str(k), i)] = (ls[i], 64, False)
            memo[key] = ls
        for i in range(4):
            ex_.store_to(P_(p.obj, p.off + i, p.sym), ls[i], "uint64")
        return ()
    ex.intrinsics[FR + ".fromMont"] = frommont


def job_cmp_bv():
    h = "VerifC15Cmp"
    ctx, ex = D.execute(PROG, FR + "." + h, intmode="bv", params={}, setup=setup_cmp_bv, harness_pkgs=[FR], globals_init=GLOBALS)
    xr, yr = list(note(ctx, "xr")), list(note(ctx, "yr"))
    XR, YR = bvval(xr), bvval(yr)
    c = note(ctx, "cmp")
    obs = [ob("Cmp = +1 when x > y (regular values, bit-vector run with FromMont as an arbitrary reduced value)", z3.And(z3.UGT(XR, YR), c != 1)),
           ob("Cmp = -1 when x < y", z3.And(z3.ULT(XR, YR), c != z3.BitVecVal(-1, 64))),
           ob("Cmp = 0 when x = y", z3.And(XR == YR, c != 0)),
           ob("LexicographicallyLargest iff regular value > (r-1)/2", b_term(note(ctx, "lexl")) != z3.UGT(XR, z3.BitVecVal((Q - 1) // 2, 320)))]
    recs = D.discharge_all(ctx, extra=obs, timeout_ms=TIMEOUT_MS)
    return {"group": "Cmp / LexicographicallyLargest [bv, FromMont havocked to an arbitrary reduced value]", "recs": recs, "info": ctx_info(ctx), "harness": h, "params": {}, "mode": "cmpbv"}


def job_batchinvert(n, mask):
    """algebra level (rational functions): Montgomery batch inversion for one zero pattern"""
    from gosmt import field, stdlib as st_
    from gosmt.driver import identity_by_normal_form
    from gosmt.harness import frame_obligations, _name
    from gosmt.values import Ptr as P_
    h = "VerifC15BatchInvert"
    params = {"n": n, "zeromask": mask}

    def setup(ex):
        st_.install(ex)
        dom = field.install_real(ex, types=("repo",))

        def sym(ex_, args, ins):
            nm = _name(ex_, args[0])
            v = dom.sym("A_" + nm.replace("#", "_"), nonzero=True, ctx=ex_.ctx)
            ex_.ctx.vars[nm] = (v.t, 0, False)
            return (v,)
        ex.intrinsics[FR + ".c15sym"] = sym
    ctx, ex = D.execute(PROG, FR + "." + h, intmode="bv", params=params, setup=setup, harness_pkgs=[FR], unwind=1000, prune=False)
    EL = FR + ".Element"
    obs = []
    ln = [v for (l, g, v) in ctx.notes if l == "len"][0]
    obs.append(ob("BatchInvert returns one entry per input", ln != n))
    res = [v for (l, g, v) in ctx.notes if l == "res"][0]
    k = 0
    for i in range(min(n, res.len if not is_term(res.len) else 0)):
        r = ex.load(P_(res.ptr.obj, res.ptr.off + i, res.ptr.sym), EL)
        if (mask >> i) & 1:
            okz, _ = identity_by_normal_form(r.t, z3.RealVal(0), None)
            obs.append(ob("zero input %d gives zero" % i, not (okz is True)))
        else:
            a = ctx.vars["a" if k == 0 else "a#%d" % k][0]
            k += 1
            o = Obligation("res[%d] * a[%d] = 1" % (i, i), r.t * a != 1, "assert")
            o.ident = (r.t * a, z3.RealVal(1))
            obs.append(o)
    obs += frame_obligations(ex)
    recs = D.discharge_all(ctx, extra=obs, timeout_ms=60000)
    return {"group": "BatchInvert n=%d zero pattern %s [A_Q]" % (n, bin(mask)), "recs": recs, "info": ctx_info(ctx), "harness": h, "params": params, "mode": "bi"}


def job(h, params, mode):
    if mode == "bi":
        return job_batchinvert(params["n"], params["zeromask"])
    if mode == "tail":
        return job_tail(h, params)
    if mode == "cmpbv":
        return job_cmp_bv()
    if mode == "inv":
        # Inverse: loop invariant at the loop heads of the real SSA (partial correctness for every input)
        from checks import c15inv
        return c15inv.job(params["alias"])
    ctx, ex = D.execute(PROG, FR + "." + h, intmode=mode, params=params, setup=setup_fr, harness_pkgs=[FR], globals_init=GLOBALS)
    obs = (spec_bv if mode == "bv" else spec_int)(h, ctx, params)
    ctx.reach_hint = {"x0": 1, "x1": 2, "x2": 3, "x3": 4, "y0": 5, "y1": 6, "y2": 7, "y3": 8, "v": 77, "i": 3}
    # concrete run through the encoder: reachability witness and translator self-test against the Python reference
    import random
    wrecs = []
    rng = random.Random(12345 + len(h))
    for k in range(3):
        xv, yv = [rng.randrange(Q), Q - 1, 1][k], [rng.randrange(Q), Q - 1, 0][k]
        vals = {"x%d" % i: (xv >> (64 * i)) & (W - 1) for i in range(4)}
        vals.update({"y%d" % i: (yv >> (64 * i)) & (W - 1) for i in range(4)})
        vals.update({"v": [rng.randrange(W), W - 1, 0][k], "i": [rng.randrange(256), 255, 300][k]})

        def judge(c2, vals=vals):
            notes = {}
            for (l, g, v) in c2.notes:
                notes.setdefault(l, []).append(list(v) if isinstance(v, tuple) else v)
            return (judge_bv if mode == "bv" else judge_int)(h, params, vals, notes)
        wrec, _ = D.concrete_witness(PROG, FR + "." + h, vals, judge=judge, intmode=mode, params=params, setup=setup_fr, harness_pkgs=[FR], globals_init=GLOBALS)
        wrecs.append(wrec)
    if any(w["verdict"] == "violated" for w in wrecs):
        recs = wrecs
    else:
        recs = D.discharge_all(ctx, extra=obs, timeout_ms=(TIMEOUT_MS if mode == "bv" else 30000), lemmas=(mode == "int"), skip_reach=(mode == "int"),
                               retry_timeout_ms=TIMEOUT_MS)
        recs += wrecs
    info = ctx_info(ctx)
    info["lemmas"] = getattr(ctx, "lemma_stats", None)
    return {"group": "%s %s [%s]" % (h, params, mode), "recs": recs, "info": info, "harness": h, "params": params, "mode": mode}


def make_replay(h, params, mode):
    if mode == "inv":
        from checks import c15inv
        return c15inv.make_replay(BUILD, params)
    if mode == "bi":
        def cb3(rec):
            from checks.c01 import real_to_mod
            vals = {k: real_to_mod(v) for k, v in (rec.get("model") or {}).items()}
            res = native_replay(BUILD, FR, FR + "." + h, params, vals, tag="batchinvert")
            return (None if not res["built"] else bool(res["failed"] or res["panics"])), res["path"]
        return cb3
    if mode in ("tail", "cmpbv"):
        def cb2(rec):
            # over-approximated runs (havoc): the model fixes an intermediate value (pre-reduction T / regular values), the
            # matching inputs of the real function are reconstructed and tried natively
            import random
            m = rec.get("model") or {}
            rng = random.Random(1)
            Rm = (1 << 256) % Q
            last = (False, None)
            if mode == "cmpbv":
                a = sum(int(m.get("regA%d" % i, 0)) << (64 * i) for i in range(4)) * Rm % Q
                b = sum(int(m.get("regB%d" % i, 0)) << (64 * i) for i in range(4)) * Rm % Q
                cands = [(a, b)]
            else:
                T = sum(int(m.get("T%d" % i, 0)) << (64 * i) for i in range(4))
                cands = []
                for k in range(10):
                    if h == "VerifC15FromMont":
                        cands.append(((T * Rm + k * 0) % Q, 0))
                        break
                    x = rng.randrange(1, Q)
                    y = T * Rm % Q * pow(x, -1, Q) % Q
                    cands.append((x, y))
            for (x, y) in cands:
                vals = {"x%d" % i: (x >> (64 * i)) & (W - 1) for i in range(4)}
                vals.update({"y%d" % i: (y >> (64 * i)) & (W - 1) for i in range(4)})
                res = native_replay(BUILD, FR, FR + "." + h, params, vals, tag="%s_tail" % h)
                if not res["built"]:
                    return None, res["path"]
                try:
                    bad = judge_int(h, params, vals, res["notes"])
                except Exception:
                    bad = None
                last = (bool(bad) or bool(res["panics"]), res["path"])
                if last[0]:
                    return last
            return last
        return cb2

    def cb(rec):
        res = native_replay(BUILD, FR, FR + "." + h, params, rec.get("model") or {}, tag="%s_%s" % (h, "_".join("%s%s" % kv for kv in params.items())))
        if not res["built"]:
            return None, res["path"]
        if res["panics"] or res["failed"]:
            return True, res["path"]
        try:
            v = (judge_bv if mode == "bv" else judge_int)(h, params, rec.get("model") or {}, res["notes"])
        except Exception:
            v = None
        return v, res["path"]
    return cb


def run(tier, seed):
    global PROG, BUILD, GLOBALS
    rep = Report("C15", tier, seed)
    BUILD = D.Build("c15", [FR], [FR + ".*"])
    try:
        PROG = BUILD.load()
        from gosmt.stdlib import annotate_used_results
        annotate_used_results(PROG)
        raw = BUILD.dump_globals({FR: ["qElement", "rSquare"]})
        GLOBALS = raw
    except Exception as e:  # noqa
        rep.inconclusive_group("load", str(e))
        return rep.finish()
    qe = pyval(GLOBALS[FR + ".qElement"])
    from gosmt.driver import Discharger
    closed = [{"label": "constant qElement equals the modulus r", "kind": "assert", "status": "unsat" if qe == Q else "sat", "time_s": 0, "pos": "",
               "ok": qe == Q, "verdict": "holds" if qe == Q else "violated", "model": {}},
              {"label": "constant qInvNeg * r[0] = -1 mod 2^64", "kind": "assert", "status": "unsat" if (QINVNEG * (Q % W) + 1) % W == 0 else "sat", "time_s": 0,
               "pos": "", "ok": (QINVNEG * (Q % W) + 1) % W == 0, "verdict": "holds", "model": {}}]
    rep.add("closed constant identities", closed)
    rep.bounds = {"inputs": "all limb values with x,y < r (reduce: x < 2r); full 4x64-bit width, no size reduction",
                  "aliasing": "receiver/operand patterns 0..4 enumerated (distinct, z=x, z=y, x=y, all equal)",
                  "assembly": "every TEXT symbol of the three .s files (ADX path symbolically, fallback = call of the portable function with unchanged arguments), aliasing patterns of the pointer arguments enumerated",
                  "BatchInvert": "every zero pattern of n <= 4 inputs (31 runs), rational-function identities res[i]*a[i] = 1, zero -> zero, input untouched",
                  "Inverse": "binary extended Euclid loop by a loop invariant at its loop heads and after the subtraction step (every input < r, every loop state satisfying the invariant, no unrolling): partial correctness, result = R^2 x^-1 mod r, Inverse(0) = 0, receiver aliasing the operand",
                  "outside": "termination of the Inverse loop (gcd argument); Sqrt, Exp, Legendre (not built); Div = Mul o Inverse is not run separately; schoolbook lemma sum P(x_i,y_j)W^(i+j)=x*y taken on paper; violations found in the assembly groups are reported without native replay (the replay would need the mutated assembly to be the one linked, which it is: see DESIGN 0.2)"}
    rep.assumptions = ["Inverse: phi(t) = t R^2 x^-1 mod r is uninterpreted; only true instances of its linearity (halving, difference), phi(r)=0, phi(x)=R^2 mod r and its range are given; the exit value phi(1) is the Montgomery form of the inverse (paper step)",
                       "abstract 64x64 product P(a,b) constrained only by 0<=P<=(2^64-1)a,(2^64-1)b (true of real multiplication)",
                       "dropped-result lemmas are proved before use, never assumed", "operands are reduced (documented Element invariant)"]
    lin_names = ("VerifC15Add", "VerifC15Sub", "VerifC15Double", "VerifC15Neg", "VerifC15Reduce", "VerifC15API", "VerifC15Butterfly")
    jobs = [(h, p, "int") for h, p in INT_JOBS] + [(h, p, "int") for h, p in BV_JOBS if h in lin_names]
    if tier == "thorough":
        jobs += [(h, p, "bv") for h, p in BV_JOBS]
    else:
        jobs += [(h, p, "bv") for h, p in BV_JOBS if h in ("VerifC15Neg", "VerifC15Double", "VerifC15Reduce", "VerifC15Bits", "VerifC15MulByConstant") or (h == "VerifC15Add" and p.get("alias") == 0)]
    jobs += [("VerifC15Mul", {"alias": a}, "tail") for a in (range(5) if tier == "thorough" else (0, 4))] + [("VerifC15FromMont", {}, "tail"), ("VerifC15Cmp", {}, "cmpbv")]
    jobs += [("VerifC15BatchInvert", {"n": n, "zeromask": m_}, "bi") for n in range(0, 5) for m_ in range(1 << n)]
    jobs.sort(key=lambda j: 0 if j[2] == "int" else 1)
    jobs = [("VerifC15Inverse", {"alias": a}, "inv") for a in (0, 1)] + jobs

    def on_result(a, item):
        rep.add(item["group"], item["recs"], _Info(item["info"]), key_prefix=item["harness"], replay=make_replay(item["harness"], item["params"], item["mode"]))
    run_jobs(rep, job, jobs, name=lambda a: "%s %s" % (a[0], a[1]), on_result=on_result)
    # O2: the assembly routines, interpreted from the text of the .s files
    from checks import c15asm

    def asm_replay(rec):
        # replay on the real build: Element.Mul / FromMont dispatch to the assembly natively
        vals = rec.get("model") or {}
        if not all(("x%d" % i) in vals for i in range(4)):
            return None, None
        vals = {k: int(v) for k, v in vals.items()}
        res = native_replay(BUILD, FR, FR + ".VerifC15MulAsm", {}, vals, tag="asm")
        if not res["built"]:
            return None, res["path"]
        Rinv = pow(1 << 256, -1, Q)
        x = model_elem(vals, "x")
        y = model_elem(vals, "y")
        try:
            bad = pyval(res["notes"]["z"][0]) != x * y * Rinv % Q or pyval(res["notes"]["fm"][0]) != x * Rinv % Q
        except Exception:
            bad = bool(res["panics"])
        return bad, res["path"]

    def on_asm(a, item):
        rep.add(item["group"], item["recs"], _Info(item["info"]), key_prefix="asm", replay=asm_replay)
    try:
        run_jobs(rep, c15asm.job, c15asm.all_jobs(tier), name=lambda a: "asm %s" % (a[1:],), on_result=on_asm)
        rep.trusted.append("Plan 9 assembler encoding of the mnemonics and the CPU (assembly is interpreted from source text)")
    except Exception as e:  # noqa
        rep.inconclusive_group("assembly", str(e)[:300])
    return rep.finish(explanation="Assembly routines (element_ops_amd64.s, element_mul_amd64.s, element_mul_adx_amd64.s) interpreted from their text into SMT and checked against the same specifications. Portable limb arithmetic of bandersnatch/fr executed from SSA: add/sub/neg/double/reduce/butterfly/mulByConstant/Bit/BitLen bit-precisely (BV), "
                      "mul/fromMont/SetUint64/Cmp in the integer encoding with abstract products and proved dropped-result lemmas.")


def replay(path):
    d = json.load(open(path))
    build = D.Build("c15", [FR], [FR + ".*"])
    res = native_replay(build, d["pkg"], d["entry"], d["params"], d["values"], tag="manual")
    print(res["output"])
    return 1 if (res["failed"] or res["panics"]) else 0
