"""C02 - verifier: shape totality (error, never panic) and the IPA acceptance predicate equals the protocol's equation."""
import itertools
import json
import z3
from gosmt import driver as D
from gosmt import tlog, gpoint
from gosmt.field import FVal
from gosmt.group import GVal
from gosmt.check import Report, std_replay, native_replay, run_jobs, ctx_info, _Info
from gosmt.harness import frame_obligations, _name
from gosmt.values import Unsupported, Ptr, Slice, is_term, b_and, b_not, b_term
from checks import mplib as M
from checks.mplib import ob, obi, ROOT, IPA, BW, EL, PT, N
from checks import c01

IPALABELS = ["labelDomainSep", "labelC", "labelInputPoint", "labelOutputPoint", "labelW", "labelL", "labelR", "labelX"]
PROG2 = None
BUILD2 = None
GLOB2 = None


def setup_ipa(ex):
    M.setup_mp(ex)
    I = ex.intrinsics
    for k in (IPA + ".CheckIPAProof", IPA + ".CreateIPAProof"):
        I.pop(k, None)
    dom, gd = ex.ctx.fdom, ex.ctx.gd
    I[IPA + ".c04config"] = I[ROOT + ".c01config"]

    def frsym(ex_, args, ins):
        n = _name(ex_, args[0])
        v = dom.sym("S_" + n.replace("#", "_").replace("-", "_"), nonzero=False)
        ex_.ctx.vars[n] = (v.t, 0, False)
        return (v,)
    I[IPA + ".c02fr"] = frsym

    def point(ex_, args, ins):
        n = _name(ex_, args[0])
        ex_.ctx.vars[n] = (0, 0, False)
        return ((gd.gen("P_" + n), gd.zero(), gd.zero()),)
    I[IPA + ".c02point"] = point

    def bvec(ex_, args, ins):
        cells = [dom.sym("B_%d" % i) for i in range(N)]
        ex_.ctx.calls.setdefault("computeBVector", []).append(args[1])
        p = ex_.alloc(EL, label="b vector (computeBVector summarised: C04/C18)", cells=cells, count=N)
        return (Slice(p, N, N, EL),)
    I[IPA + ".computeBVector"] = bvec

    def equal(ex_, args, ins):
        a, b = gpoint.getg(ex_, args[0]), gpoint.getg(ex_, args[1])
        k = len(ex_.ctx.calls.setdefault("Equal", []))
        r = z3.Bool("group_eq_%d" % k)
        ex_.ctx.calls["Equal"].append((a, b, r))
        return (r,)
    I["(*%s).Equal" % PT] = equal

    def scalarmul(ex_, args, ins):
        p, p1, s = args
        sv = ex_.load(s, EL)
        gpoint.setg(ex_, p, gd.scale(gpoint.getg(ex_, p1), sv.t), 3)
        return (p,)
    I["(*%s).ScalarMul" % PT] = scalarmul


def lab2(name):
    return bytes(int(x) for x in GLOB2[IPA + "." + name]["slice"])


def job_ipa(nl, nr):
    h = "VerifC02IPAVerifier"
    params = {"nl": nl, "nr": nr, "numcpu": 16}
    ctx, ex = D.execute(PROG2, IPA + "." + h, intmode="bv", params=params, setup=setup_ipa, harness_pkgs=[IPA], globals_init=GLOB2, unwind=100000, prune=False)
    gd, dom = ctx.gd, ctx.fdom
    obs = []
    okn = [v for (l, g, v) in ctx.notes if l == "ok"][0]
    errn = [v for (l, g, v) in ctx.notes if l == "err"][0]
    if nl != 8 or nr != 8:
        obs.append(ob("wrong number of L/R points gives an error", errn is not True))
        obs.append(ob("wrong number of L/R points gives false", okn is not False))
        obs.append(ob("no group equation is evaluated for a wrong-shaped proof", bool(ctx.calls.get("Equal"))))
    else:
        obs.append(ob("no error for a well-shaped proof", errn is not False))
        eqs = ctx.calls.get("Equal", [])
        if len(eqs) != 1:
            obs.append(ob("the verdict is the value of exactly one group-equality test (found %d)" % len(eqs), True))
        else:
            got, com, r = eqs[0]
            obs.append(ob("the returned boolean is the result of the group-equality test", b_term(okn) != r if is_term(okn) else True))
            log = ex.store.get(("TLOG",) + tuple(ex.ctx.tlogs[0].key()[:2]), ()) if False else None
            tp = ex.ctx.tlogs[0]
            log = ex.store.get(("TLOG", tp.obj, tp.off), ())
            sym = lambda n: z3.Real("S_" + n)
            a, zz, y = sym("a"), sym("z"), sym("y")
            w = M.chal(log, lab2("labelW"))
            xs = [it[2].t for it in log if it[0] == "challenge" and it[1] == lab2("labelX")]
            want = [("new", b"ipa-test"), ("sep", lab2("labelDomainSep")), ("point", lab2("labelC"), gd.gen("P_C")),
                    ("scalar", lab2("labelInputPoint"), FVal(zz, dom)), ("scalar", lab2("labelOutputPoint"), FVal(y, dom))]
            if w is None or len(xs) != 8:
                obs.append(ob("challenges w and x_1..x_8 are drawn", True))
            else:
                want.append(("challenge", lab2("labelW"), FVal(w, dom)))
                for j in range(8):
                    ln = "L" if j == 0 else "L#%d" % j
                    rn = "R" if j == 0 else "R#%d" % j
                    want += [("point", lab2("labelL"), gd.gen("P_" + ln)), ("point", lab2("labelR"), gd.gen("P_" + rn)), ("challenge", lab2("labelX"), FVal(xs[j], dom))]
                obs += M.expect_log(ex, log, want, "IPA verifier")
                # reference equation
                s = []
                for i in range(N):
                    t = z3.RealVal(1)
                    for j in range(8):
                        if i & (1 << (7 - j)):
                            t = t * (1 / xs[j])
                    s.append(t)
                b0 = z3.Sum([z3.Real("B_%d" % i) * s[i] for i in range(N)])
                lhs = {"G%d" % i: a * s[i] for i in range(N)}
                lhs["Q"] = a * b0 * w
                rhs = {"P_C": z3.RealVal(1), "Q": y * w}
                for j in range(8):
                    rhs["P_" + ("L" if j == 0 else "L#%d" % j)] = xs[j]
                    rhs["P_" + ("R" if j == 0 else "R#%d" % j)] = 1 / xs[j]
                # the code may put either side first
                def side_obs(g1, g2, tag):
                    return M.coeff_obligations("verifier equation, %s side g0*a + (a*b0)*wQ" % tag, g1, lhs, gd) + \
                        M.coeff_obligations("verifier equation, %s side C + y*wQ + sum x_i L_i + x_i^-1 R_i" % tag, g2, rhs, gd)
                if any(k.startswith("G") for k in got.coeffs):
                    obs += side_obs(got, com, "as written")
                else:
                    obs += side_obs(com, got, "swapped")
                bv = ctx.calls.get("computeBVector", [])
                obs.append(obi("the b vector is computed for the evaluation point", bv[0].t, zz) if bv else ob("b vector computed", True))
    obs += frame_obligations(ex)
    recs = D.discharge_all(ctx, extra=obs, timeout_ms=120000)
    return {"group": "CheckIPAProof with %d L and %d R points" % (nl, nr), "recs": recs, "info": ctx_info(ctx), "harness": h, "params": params, "pkg": IPA}


def job_shapes(nc, ny, nz):
    h = "VerifC02Shapes"
    params = {"nc": nc, "ny": ny, "nz": nz, "numcpu": 16, "summarise_batchinvert": 1}
    for i in range(nz):
        params["z%d" % i] = [0, 255, 7, 128][i % 4]
    ctx, ex = D.execute(M.PROG, ROOT + "." + h, intmode="bv", params=params, setup=M.setup_mp, harness_pkgs=[ROOT], globals_init=M.GLOBALS, unwind=100000, prune=False)
    recs = D.discharge_all(ctx, extra=frame_obligations(ex), timeout_ms=60000)
    return {"group": "CheckMultiProof shape len(Cs)=%d len(ys)=%d len(zs)=%d" % (nc, ny, nz), "recs": recs, "info": ctx_info(ctx), "harness": h, "params": params, "pkg": ROOT}


def run(tier, seed):
    global PROG2, BUILD2, GLOB2
    rep = Report("C02", tier, seed)
    M.BUILD = D.Build("c02root", [ROOT], [ROOT + ".VerifC02Shapes"])
    BUILD2 = D.Build("c02ipa", [IPA], [IPA + ".VerifC02IPAVerifier"])
    try:
        M.PROG = M.BUILD.load()
        M.GLOBALS = M.BUILD.dump_globals({ROOT: c01.LABELS})
        PROG2 = BUILD2.load()
        GLOB2 = BUILD2.dump_globals({IPA: IPALABELS})
    except Exception as e:  # noqa
        rep.inconclusive_group("load", str(e))
        return rep.finish()
    rep.bounds = {"shapes": "len(Cs), len(ys), len(zs) in 0..3 (all 64 combinations); len(L), len(R) in 0..9 (all 100 combinations)",
                  "acceptance predicate": "all components (C, z, y, L_1..8, R_1..8, a, b vector) independent symbols",
                  "outside": "that no adversary finds a passing wrong statement (discrete-log assumption): rejection of EVERY wrong statement is not a solver-decidable claim; "
                             "CheckMultiProof's own equation bookkeeping is C01's verifier group"}
    rep.assumptions = ["as C01 (field/group/transcript summaries); computeBVector summarised (C04/C18); Element.Equal summarised by a fresh boolean per comparison whose two operands are compared with the protocol equation",
                       "challenges are symbols of the absorbed history: a component missing from the transcript shows as a log mismatch"]

    def on(a, item):
        b = BUILD2 if item["pkg"] == IPA else M.BUILD
        inner = std_replay(b, item["pkg"], item["pkg"] + "." + item["harness"], item["params"])

        def cb(rec):
            r2 = dict(rec)
            r2["model"] = {k: c01.real_to_mod(v) for k, v in (rec.get("model") or {}).items()}
            return inner(r2)
        rep.add(item["group"], item["recs"], _Info(item["info"]), key_prefix=item["harness"], sample=(len(rep.samples) < 8), replay=cb)
    shapes = [(a, b, c) for a in range(4) for b in range(4) for c in range(4)]
    lr = [(a, b) for a in range(10) for b in range(10)]
    run_jobs(rep, job_shapes, shapes, name=lambda a: "shapes %s" % (a,), on_result=on)
    run_jobs(rep, job_ipa, lr, name=lambda a: "ipa L/R %s" % (a,), on_result=on)
    return rep.finish(explanation="CheckIPAProof executed from SSA end to end (8 rounds, folding scalars, MSM and inner product) with symbolic components; CheckMultiProof shape handling.")


def replay(path):
    d = json.load(open(path))
    pkg = d["pkg"]
    b = D.Build("c02ipa", [IPA], [IPA + ".VerifC02IPAVerifier"]) if pkg == IPA else D.Build("c02root", [ROOT], [ROOT + ".VerifC02Shapes"])
    res = native_replay(b, pkg, d["entry"], d["params"], d["values"], tag="manual")
    print(res["output"])
    return 1 if (res["failed"] or res["panics"]) else 0
