"""C03 - proof is a deterministic, spec-conformant function of the inputs: the prover's transcript, D, E and IPA arguments equal
the naive reference prover's for every worker count and channel arrival order (bookkeeping level; IPA rounds separate)."""
import itertools
import json
from gosmt import driver as D
from gosmt.check import Report, run_jobs
from checks import mplib as M
from checks import c01


def job_ipa_prover():
    """CreateIPAProof executed for real (8 halving rounds over 256-vectors) against the specification's prover"""
    import z3
    from gosmt import tlog, gpoint
    from gosmt.field import FVal
    from gosmt.group import GVal
    from gosmt.harness import frame_obligations
    from gosmt.values import Ptr
    from checks import c02
    from checks.mplib import ob, obi, IPA, EL, N
    h = "VerifC03IPAProver"
    params = {"numcpu": 16}
    ctx, ex = D.execute(c02.PROG2, IPA + "." + h, intmode="bv", params=params, setup=c02.setup_ipa, harness_pkgs=[IPA], globals_init=c02.GLOB2, unwind=100000, prune=False)
    gd, dom = ctx.gd, ctx.fdom
    obs = []
    g = lambda n: [v for (l, gg, v) in ctx.notes if l == n][0]
    obs.append(ob("no error", g("err") is not False))
    obs.append(ob("8 L points and 8 R points", not (g("nL") == 8 and g("nR") == 8)))
    tp = ex.ctx.tlogs[0]
    log = ex.store.get(("TLOG", tp.obj, tp.off), ())
    lab = c02.lab2
    a = [z3.Real("S_p" if i == 0 else "S_p_%d" % i) for i in range(N)]
    b = [z3.Real("B_%d" % i) for i in range(N)]
    zz = z3.Real("S_z")
    w = M.chal(log, lab("labelW"))
    xs = [it[2].t for it in log if it[0] == "challenge" and it[1] == lab("labelX")]
    if w is None or len(xs) != 8:
        obs.append(ob("challenges w and x_1..x_8 are drawn", True))
    else:
        ip = z3.Sum([a[i] * b[i] for i in range(N)])
        want = [("new", b"ipa-test"), ("sep", lab("labelDomainSep")), ("point", lab("labelC"), gd.gen("P_C")),
                ("scalar", lab("labelInputPoint"), FVal(zz, dom)), ("scalar", lab("labelOutputPoint"), FVal(ip, dom)), ("challenge", lab("labelW"), FVal(w, dom))]
        Gv = [{"G%d" % i: z3.RealVal(1)} for i in range(N)]
        av, bv = list(a), list(b)
        Ls, Rs = [], []

        def msm(points, scalars):
            out = {}
            for pnt, sc in zip(points, scalars):
                for k, c in pnt.items():
                    out[k] = out.get(k, 0) + c * sc
            return out
        for k in range(8):
            m_ = len(av) // 2
            aL, aR, bL, bR, GL, GR = av[:m_], av[m_:], bv[:m_], bv[m_:], Gv[:m_], Gv[m_:]
            zL = z3.Sum([x * y for x, y in zip(aR, bL)]) if m_ > 1 else aR[0] * bL[0]
            zR = z3.Sum([x * y for x, y in zip(aL, bR)]) if m_ > 1 else aL[0] * bR[0]
            Lk = msm(GL, aR)
            Lk["Q"] = zL * w
            Rk = msm(GR, aL)
            Rk["Q"] = zR * w
            Ls.append(Lk)
            Rs.append(Rk)
            x = xs[k]
            want += [("point", lab("labelL"), GVal(Lk, gd)), ("point", lab("labelR"), GVal(Rk, gd)), ("challenge", lab("labelX"), FVal(x, dom))]
            av = [l + x * r for l, r in zip(aL, aR)]
            bv = [l + (1 / x) * r for l, r in zip(bL, bR)]
            Gv = [dict(list(l.items()) + [(kk, c * (1 / x)) for kk, c in r.items()]) for l, r in zip(GL, GR)]
        if len(log) != len(want):
            obs.append(ob("prover transcript absorbs exactly the specified sequence (%d items, expected %d)" % (len(log), len(want)), True))
        else:
            for k_, (x_, y_) in enumerate(zip(log, want)):
                if x_[0] == "point" and y_[0] == "point" and x_[1] == y_[1] and y_[1] in (lab("labelL"), lab("labelR")):
                    obs += M.coeff_obligations("round %d: %s absorbed = <a_%s, G_%s> + <a_%s, b_%s> w Q" % ((k_ - 6) // 3, "L" if y_[1] == lab("labelL") else "R", "R" if y_[1] == lab("labelL") else "L", "L" if y_[1] == lab("labelL") else "R", "R" if y_[1] == lab("labelL") else "L", "L" if y_[1] == lab("labelL") else "R"), x_[2], y_[2].coeffs, gd)
                else:
                    obs.append(ob("IPA prover transcript item %d is %s under label %r" % (k_, y_[0], y_[1]), b_not_(tlog.item_same(ex, x_, y_))))
        proof = g("proof")
        # proof value: (L slice, R slice, A_scalar)
        Lsl, Rsl, A = proof[0], proof[1], proof[2]
        for nm, sl, ref in (("L", Lsl, Ls), ("R", Rsl, Rs)):
            for k in range(min(8, sl.len)):
                got = ex.load(Ptr(sl.ptr.obj, sl.ptr.off + 3 * k, sl.ptr.sym), gpoint.GFR)
                obs += M.coeff_obligations("returned proof.%s[%d]" % (nm, k), got, ref[k], gd)
        obs.append(obi("returned A_scalar is the fully folded a", A.t, av[0]))
    obs += frame_obligations(ex)
    recs = D.discharge_all(ctx, extra=obs, timeout_ms=300000)
    info = M.ctx_info(ctx) if hasattr(M, "ctx_info") else {"functions_encoded": dict(ctx.functions_encoded), "stubs_used": dict(ctx.stubs_used), "exec_s": ctx.exec_s}
    return {"group": "CreateIPAProof: 8 halving rounds vs specification prover", "recs": recs, "info": info, "harness": h, "params": params, "pkg": IPA}


def b_not_(x):
    from gosmt.values import b_not
    return b_not(x)


def run(tier, seed):
    rep = Report("C03", tier, seed)
    if not c01.load(rep):
        return rep.finish()
    on = c01.make_on(rep)
    S = c01.index_sets(tier, seed + 1)[0]
    cpus = [1, 2, 3, 4, 16] if tier == "quick" else list(range(1, 17))
    pats = [p for n in (1, 2, 3) for p in itertools.product(S, repeat=n)]
    if tier == "quick":
        pats = [p for p in pats if len(p) < 3 or len(set(p)) < 3 or p == tuple(S)]
    gj = [(zs, cpu, order) for zs in pats if len(zs) >= 2 for cpu in cpus for order in ("fifo", "lifo", "shuffle")]
    pj = [(zs, cpu, 0, 0, order) for zs in pats if len(zs) >= 2 for cpu in cpus for order in ("fifo", "lifo")]
    pj += [(zs, 2, 1, 0, "fifo") for zs in pats if len(zs) >= 2 and len(set(zs)) == 1]
    for j in gj + pj:
        pass
    rep.bounds = {"openings": "n in {1,2,3}, indices over %s" % (S,), "NumCPU": cpus, "arrival orders": "fifo, lifo, seeded shuffle (grouping); fifo, lifo (prover)",
                  "runs": {"grouping": len(gj), "prover": len(pj)},
                  "IPA prover": "CreateIPAProof at the real size (256 -> 1 in 8 rounds), polynomial/commitment/point symbolic: every L_k, R_k, transcript item and the final scalar vs the specification's prover",
                  "outside": "serialisation layout (C10), transcript hashing (C14), MSM split choice (C09), byte equality with other implementations on concrete inputs (native replay harness / repository vectors)"}
    rep.assumptions = ["as C01: field/group/transcript summaries; the reference prover is the specification's sequential formulation without grouping"]

    def jg(zs, cpu, order):
        if order == "shuffle":
            import random
            r = c01.job_grouping.__wrapped__(zs, cpu, order) if hasattr(c01.job_grouping, "__wrapped__") else None
        return c01.job_grouping(zs, cpu, order)
    run_jobs(rep, c01.job_grouping, [j for j in gj if j[2] != "shuffle"], name=lambda a: "grouping %s" % (a,), on_result=on)
    run_jobs(rep, c01.job_prover, pj, name=lambda a: "prover %s" % (a,), on_result=on)
    # O2: the IPA prover itself
    try:
        from checks import c02
        from gosmt.check import std_replay, _Info
        c02.BUILD2 = D.Build("c03ipa", [c02.IPA], [c02.IPA + ".VerifC03IPAProver"])
        c02.PROG2 = c02.BUILD2.load()
        c02.GLOB2 = c02.BUILD2.dump_globals({c02.IPA: c02.IPALABELS})

        def on2(a, item):
            inner = std_replay(c02.BUILD2, c02.IPA, c02.IPA + "." + item["harness"], item["params"])

            def cb(rec):
                r2 = dict(rec)
                r2["model"] = {k: c01.real_to_mod(v) for k, v in (rec.get("model") or {}).items()}
                return inner(r2)
            rep.add(item["group"], item["recs"], _Info(item["info"]), key_prefix=item["harness"], replay=cb)
        run_jobs(rep, job_ipa_prover, [()], name=lambda a: "IPA prover", on_result=on2)
    except Exception as e:  # noqa
        rep.inconclusive_group("IPA prover rounds", str(e)[:300])
    return rep.finish(explanation="CreateMultiProof executed from SSA for every listed worker count and arrival order; output (transcript items, D, E, IPA arguments) identical to the sequential reference prover, hence a function of the inputs only.")


def replay(path):
    return c01.replay(path)
