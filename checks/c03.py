"""C03 - proof is a deterministic, spec-conformant function of the inputs: the prover's transcript, D, E and IPA arguments equal
the naive reference prover's for every worker count and channel arrival order (bookkeeping level; IPA rounds separate)."""
import itertools
import json
from gosmt import driver as D
from gosmt.check import Report, run_jobs
from checks import mplib as M
from checks import c01


def run(tier, seed):
    rep = Report("C03", tier, seed)
    if not c01.load(rep):
        return rep.finish()
    on = c01.make_on(rep)
    S = c01.index_sets(tier, seed + 1)[0]
    cpus = [1, 2, 3, 4, 16] if tier == "quick" else list(range(1, 17))
    pats = [p for n in (1, 2, 3) for p in itertools.product(S, repeat=n)]
    if tier == "quick":
        pats = [p for p in pats if len(p) < 3 or len(set(p)) < 3 or p == tuple(S)]
    gj = [(zs, cpu, order) for zs in pats if len(zs) >= 2 for cpu in cpus for order in ("fifo", "lifo", "shuffle")]
    pj = [(zs, cpu, 0, 0, order) for zs in pats if len(zs) >= 2 for cpu in cpus for order in ("fifo", "lifo")]
    pj += [(zs, 2, 1, 0, "fifo") for zs in pats if len(zs) >= 2 and len(set(zs)) == 1]
    for j in gj + pj:
        pass
    rep.bounds = {"openings": "n in {1,2,3}, indices over %s" % (S,), "NumCPU": cpus, "arrival orders": "fifo, lifo, seeded shuffle (grouping); fifo, lifo (prover)",
                  "runs": {"grouping": len(gj), "prover": len(pj)},
                  "outside": "the 8 IPA rounds (CreateIPAProof summarised here), serialisation layout (C10), transcript hashing (C14), MSM split choice (C09), byte equality with other implementations on concrete inputs (native replay harness / repository vectors)"}
    rep.assumptions = ["as C01: field/group/transcript summaries; the reference prover is the specification's sequential formulation without grouping"]

    def jg(zs, cpu, order):
        if order == "shuffle":
            import random
            r = c01.job_grouping.__wrapped__(zs, cpu, order) if hasattr(c01.job_grouping, "__wrapped__") else None
        return c01.job_grouping(zs, cpu, order)
    run_jobs(rep, c01.job_grouping, [j for j in gj if j[2] != "shuffle"], name=lambda a: "grouping %s" % (a,), on_result=on)
    run_jobs(rep, c01.job_prover, pj, name=lambda a: "prover %s" % (a,), on_result=on)
    return rep.finish(explanation="CreateMultiProof executed from SSA for every listed worker count and arrival order; output (transcript items, D, E, IPA arguments) identical to the sequential reference prover, hence a function of the inputs only.")


def replay(path):
    return c01.replay(path)
