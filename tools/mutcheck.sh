#!/bin/bash
# usage: tools/mutcheck.sh <patch.diff> <ID> [tier]  -- apply a seeded change to /repo, run one check, undo
set -u
patch=$1; id=$2; tier=${3:-quick}
cd /verif
if ! git -C /repo diff --quiet; then echo "repo dirty"; exit 9; fi
cp evidence/$id.json /tmp/evidence_backup_$id.json 2>/dev/null
trap "git -C /repo checkout -- . ; cp /tmp/evidence_backup_$id.json /verif/evidence/$id.json 2>/dev/null" EXIT TERM INT
git -C /repo apply "$patch" || { echo "patch does not apply"; exit 8; }
timeout 3600 python3-vt -m checks.run $id $tier > /tmp/mutcheck_$id.log 2>&1
rc=$?
git -C /repo checkout -- .
cp /tmp/evidence_backup_$id.json evidence/$id.json 2>/dev/null
grep -E "^(VIOLATION|KNOWN-FINDING|C[0-9]+ )" /tmp/mutcheck_$id.log | cut -c1-300 | head -12; grep -E "^INCONCLUSIVE" /tmp/mutcheck_$id.log | cut -c1-300 | head -4
echo "exit=$rc"
