#!/usr/bin/env python3
"""Regenerates /verif/MANIFEST.json from the table below (kept valid at all times)."""
import json
import os

VERIF = os.path.dirname(os.path.dirname(os.path.abspath(__file__)))

CHECKS = {
    "C20": dict(
        category="proof",
        text="Bounded proof by symbolic execution of parallel.Execute (go/ssa -> SMT, integer encoding with proved no-overflow "
             "obligations): for every n in [0,2^62] and each concrete worker limit m (quick 1..32, thorough 1..64,100,128) and "
             "NumCPU 1..16 on the default path, a symbolic probe index is covered by exactly one range, ranges are non-empty "
             "and in bounds, at most min(n,m) invocations; join decided on the WaitGroup Add/Done/Wait structure.",
        design_ref="DESIGN.md section 5 / C20",
        note="Trusted: the encoder, z3, WaitGroup/NumCPU stubs; schedules are not enumerated (eager schedule + happens-before "
             "conditions); m beyond the listed values is outside the claim.",
        technique="SSA symbolic execution + SMT (z3, LIA), bounded unrolling with unwinding assertions"),
}

NOT_YET = {}

ALL = ["C%02d" % i for i in range(1, 21)]


def main():
    checks = []
    for pid in ALL:
        if pid not in CHECKS:
            continue
        c = CHECKS[pid]
        checks.append({
            "property_id": pid,
            "quick_cmd": "python3-vt -m checks.run %s quick" % pid,
            "thorough_cmd": "python3-vt -m checks.run %s thorough" % pid,
            "evidence_file": "/verif/evidence/%s.json" % pid,
            "replay_cmd_template": "python3-vt -m checks.run %s --replay {path}" % pid,
            "engine": "gosmt",
            "level_claimed": {"category": c["category"], "text": c["text"], "design_ref": c["design_ref"]},
            "level_note": c["note"],
            "technique": c["technique"],
        })
    na = []
    for pid in ALL:
        if pid not in CHECKS:
            na.append({"property_id": pid, "reason": NOT_YET.get(pid, "check not built yet in this session (solver-based harness planned in DESIGN.md section 5)")})
    m = {
        "version": 1,
        "setup_cmd": "cd /verif && ./setup.sh",
        "hooks": {
            "guard": "overlay (no build tag): harness files /verif/harness/**/zz_verif_*.go are injected with go/packages Overlay and `go test -overlay`; nothing is written into /repo",
            "enable": "checks pass -overlay <generated json> to ssa2json / go test; with no overlay the repository builds unchanged",
            "baseline_off_cmd": "cd /repo && GOFLAGS=-mod=mod GOPROXY=off GOSUMDB=off go test -json -vet=off -count=1 -timeout 25m ./...",
            "source_commits": [],
            "add_only": True,
        },
        "engines": [{"name": "gosmt", "path": "/verif/gosmt", "serves_properties": sorted(CHECKS.keys()),
                     "kind_free_text": "symbolic executor for Go SSA (dumped by tools/ssa2json from /repo's current tree on every run) producing z3 queries; native replay of counterexamples through go test -overlay"}],
        "checks": checks,
        "not_applicable": na,
        "notes": "All checks regenerate their encoding from /repo's working tree on every run. INCONCLUSIVE lines (solver unknown / unsupported construct) lower the reported bound in evidence and never raise an alarm.",
    }
    json.dump(m, open(os.path.join(VERIF, "MANIFEST.json"), "w"), indent=1)


if __name__ == "__main__":
    main()
