#!/usr/bin/env python3
"""Regenerates /verif/MANIFEST.json from the table below (kept valid at all times)."""
import json
import os

VERIF = os.path.dirname(os.path.dirname(os.path.abspath(__file__)))

CHECKS = {
    "C20": dict(
        category="proof",
        text="Bounded proof by symbolic execution of parallel.Execute (go/ssa -> SMT, integer encoding with proved no-overflow "
             "obligations): for every n in [0,2^62] and each concrete worker limit m (quick 1..32, thorough 1..64,100,128) and "
             "NumCPU 1..16 on the default path, a symbolic probe index is covered by exactly one range, ranges are non-empty "
             "and in bounds, at most min(n,m) invocations; join decided on the WaitGroup Add/Done/Wait structure.",
        design_ref="DESIGN.md section 5 / C20",
        note="Trusted: the encoder, z3, WaitGroup/NumCPU stubs; schedules are not enumerated (eager schedule + happens-before "
             "conditions); m beyond the listed values is outside the claim.",
        technique="SSA symbolic execution + SMT (z3, LIA), bounded unrolling with unwinding assertions"),
}

CHECKS["C15"] = dict(
    category="proof",
    text="Bounded-by-nothing-but-width proof obligations over the real limb code of bandersnatch/fr executed from SSA: add/sub/neg/double/"
         "reduce/butterfly/mulByConstant/Cmp/Equal/IsZero/LexicographicallyLargest/Bit/BitLen/SetUint64 and the CIOS Montgomery "
         "multiplication/fromMont for ALL limb values (operands < r), every receiver/operand aliasing pattern; integer encoding with "
         "abstract 64x64 products and proved dropped-result lemmas for mul, bit-vectors for the linear routines. The assembly routines of "
         "element_ops_amd64.s, element_mul_amd64.s and element_mul_adx_amd64.s are interpreted from their source text into the same terms "
         "and meet the same specifications (ADX path; the non-ADX path calls the portable function with unchanged arguments).",
    design_ref="DESIGN.md section 3.1, 5 / C15",
    note="Trusted: encoder, z3, schoolbook lemma sum P(x_i,y_j)W^(i+j)=x*y (paper), true axioms of the abstract product. Outside: Inverse, "
         "Sqrt, Exp, Legendre, BatchInvert (algebra level, not built); the Go assembler's encoding of the mnemonics and the CPU are trusted.",
    technique="SSA symbolic execution + SMT (z3: QF_BV and LIA with witness terms), per-obligation push/pop")
CHECKS["C16"] = dict(
    category="proof",
    text="Every byte string of each length 0..64 (quick: 12 lengths incl. 0,31,32,33,64) through SetBytes/SetBytesLE/SetBytesLECanonical "
         "executed from SSA: reduce-or-reject exactly (accept iff int<r), decode value = int mod r, receiver's old content irrelevant, "
         "caller's slice unchanged (write monitor); Bytes/BytesLE layout and round trips for all scalars.",
    design_ref="DESIGN.md section 3.3, 5 / C16",
    note="Trusted: encoder, z3, math/big and sync.Pool stubs (pool returns arbitrary content), Montgomery conversions summarised by the "
         "MONT/UNMONT bijection whose limb-level contract is C15. Outside: lengths > 64, fp.BytesLE (dependency).",
    technique="SSA symbolic execution + SMT (z3 LIA/UF), write-monitor frame obligations")
CHECKS["C05"] = dict(
    category="proof",
    text="PrecompPoint.ScalarMul executed from SSA for a fully symbolic scalar (all values < r), window sizes 8 and 16: per window the net "
         "multiple of the table row equals the closed-form signed digit, table index always in range (no panic), no carry out of the top "
         "window; MSMPrecomp.MSM loop pairs scalar i with table i and skips zeros for lengths up to 6 (thorough 32).",
    design_ref="DESIGN.md section 5 / C05 (O1, O2)",
    note="Trusted: encoder, z3, table given by specification ((j+1)*kappa_k), group-law summaries of ExtendedAddNormalized/Neg, "
         "UNMONT bijection (C15). ExtendedAddNormalized / PointExtendedFromProj / Neg are additionally checked against the twisted Edwards "
         "addition law (a=-5) as rational-function identities. Outside: table construction (O4 not built), linearity consequences.",
    technique="SSA symbolic execution + SMT (z3 QF_BV), lazy specification tables, formal-linear-combination group domain")

CHECKS["C09"] = dict(
    category="proof",
    text="bandersnatch.MultiExp stack executed from SSA in the formal-linear-combination group domain: partitionScalars for every "
         "implemented window width c in {4..16,20,21,22} and all scalars < r (per-chunk closed-form signed digit, no top carry, "
         "smallValues exact); msmC4..msmC8 orchestration (goroutines, channels, first-chunk split, reduction) for n<=3 points with real "
         "bucket arrays (quick: c=4,5; thorough: c=4,5,6) and with the chunk processor summarised by its contract; MultiExp window choice / "
         "recursive split / fan-in for concrete (n, NbTasks, NumCPU) configurations with symbolic scalars; channel capacity and close/"
         "send ordering conditions.",
    design_ref="DESIGN.md section 5 / C09",
    note="Trusted: encoder, z3, gnark point operations as group law (Double only in the chunk reduction), NumCPU stub, eager goroutine "
         "schedule + happens-before conditions for channels. Outside: bucket accumulation for c>=9, the float cost model for all n "
         "(executed concretely per configuration), n beyond the listed sizes.",
    technique="SSA symbolic execution + SMT (z3 QF_BV/UF), group domain with formal doubling levels, protocol obligations on channel events")

CHECKS["C18"] = dict(
    category="proof",
    text="ipa/barycentric.go executed from SSA with field elements as rational functions of the inputs: DivideOnDomain(k, f) for a fully "
         "symbolic polynomial f and every k checked (quick: 10 indices incl. 0,127,128,200,255; thorough: all 256) against "
         "q_i (i-k) = f_i - f_k and the independent degree<255 Lagrange interpolation for q_k; ComputeBarycentricCoefficients for symbolic z "
         "against prod(z-j)/(A'(i)(z-i)) for all 256 i (rational-function identity decided by degree-bound+1 ground SMT instances); all "
         "1022 table entries of NewPrecomputedWeights modulo r (closed computation through the encoder).",
    design_ref="DESIGN.md section 3.4, 5 / C18",
    note="Trusted: encoder, z3, field-operation summaries (C15), identities over Q[x] transfer to F_r with the recorded non-zero denominators. "
         "Outside: the barycentric formula theorem itself; z inside the domain.",
    technique="SSA symbolic execution into rational-function terms + SMT (z3 LRA; ground instances for high-degree identities)")
CHECKS["C17"] = dict(
    category="proof",
    text="fp/sqrt.go from SSA: invSqrtEqDyadic for ALL 2^32 exponents of the 2-Sylow subgroup (discrete-log domain: fails iff exponent odd, "
         "otherwise 2w+e=0 mod 2^32, every LUT access on an element of order dividing 2^8, every table index in range); the addition chain "
         "exponents (Q-1)/2, Q, (Q+1)/2; SqrtPrecomp glue (nil iff non-residue, root^2 = x, argument untouched, 0 -> 0); GetPointFromX/"
         "computeY: right-hand side (a x^2-1)/(d x^2-1), nil iff no root, returned y is the requested root, x untouched.",
    design_ref="DESIGN.md section 3.4 (domains E, P), 5 / C17",
    note="Trusted: encoder, z3, block table and LUT by their definitions, x^Q in the 2^32 subgroup and order of g (number theory), sign "
         "predicate axiom lexl(-y) = not lexl(y).",
    technique="SSA symbolic execution in a discrete-log value domain + SMT (z3 QF_BV)")
CHECKS["C04"] = dict(
    category="proof",
    text="ipa.computeBVector (with fr.Cmp, ToBigIntRegular, big.Int) executed from SSA for every field element: the barycentric routine is "
         "used exactly when the regular value is > 255, otherwise the result is the unit vector at that index (all 256 positions), no panic.",
    design_ref="DESIGN.md section 5 / C04 (O1)",
    note="Trusted: encoder, z3, MONT/UNMONT bijection (C15), math/big stub; barycentric coefficients are C18. Outside (not decidable by a "
         "solver): rejection of every wrong result (cryptographic soundness); the 8-round folding completeness (O3/O4 not built).",
    technique="SSA symbolic execution + SMT (z3 LIA/UF)")
CHECKS["C14"] = dict(
    category="proof",
    text="common/transcript.go executed from SSA against the specification (running byte string, SHA-256 as an uninterpreted function of the "
         "hashed bytes, little-endian reduction, restart with label+challenge): every challenge of every operation sequence of length <= 3 "
         "(thorough 4) plus seeded longer sequences (incl. > 1024 pending bytes, empty and 1100-byte messages) equals the specification's; "
         "caller label/message buffers (with spare capacity) unchanged.",
    design_ref="DESIGN.md section 5 / C14",
    note="Trusted: encoder, z3, hash.Hash/bytes.Buffer stubs, encodings of scalars/points by contract (C16, C07). Outside: SHA-256 itself; "
         "sequences longer than those listed.",
    technique="SSA symbolic execution with uninterpreted hash + SMT equality of hashed byte strings")
CHECKS["C10"] = dict(
    category="proof",
    text="MultiProof.Read/Write, IPAProof.Read/Write, common.ReadPoint/ReadScalar and io.ReadAtLeast executed from SSA over a symbolic byte "
         "string of each length in {0,1,31,32,33,543..545,575..578,608,640} (thorough 0..640) and a chunking reader model (k bytes per Read, "
         "optional data+EOF): Read succeeds iff exact length, all points valid, scalar canonical; Write(Read(b)) = b; Read(Write(p)) = p; a "
         "writer failing at any of the 18 calls makes Write fail; no panic.",
    design_ref="DESIGN.md section 5 / C10",
    note="Trusted: encoder, z3, point decoder as uninterpreted validity predicate with Bytes(decode(b)) = b (C06/C07), canonical scalar decoder "
         "by its C16 contract, binary.Write stub. Outside: readers returning (0,nil); unlisted chunk sizes.",
    technique="SSA symbolic execution + SMT (z3 QF_BV/UF) with I/O environment stubs")

CHECKS["C01"] = dict(
    category="proof",
    text="Bounded proof of the bookkeeping around the two mathematical facts (polynomial division = C18, IPA completeness): "
         "groupPolynomialsByEvaluationPoint, CreateMultiProof and CheckMultiProof executed from SSA with field elements as rational "
         "functions, points as formal linear combinations and the transcript as an absorb log, for n<=3 openings over a 3-element index "
         "set (every pattern incl. repeats, zero evaluations, shared pointers), NumCPU in {1,2,3,16}, both channel arrival orders: every "
         "transcript item, D, E, the grouped sums and every argument handed to the IPA prover/verifier equal the reference written from "
         "the specification; inputs and configuration unchanged.",
    design_ref="DESIGN.md section 5 / C01",
    note="Trusted: encoder, z3, summaries of Commit/MultiScalar (linear), BatchNormalize (C19), transcript (C14), IPA (arguments recorded), "
         "weight tables by definition (C18); denominators t - z != 0 (t is a hash output). Outside: n>3, other index sets (seeded), IPA "
         "completeness and (h-g)(t)=g_2(t) composed on paper; real SHA-256/curve arithmetic only in native replays.",
    technique="SSA symbolic execution into rational-function / linear-combination terms; identities decided by z3 (polynomial normal form, NRA fallback)")
CHECKS["C03"] = dict(
    category="proof",
    text="Same machinery as C01 focused on determinism: for n in {2,3} openings the prover's transcript, D, E and IPA arguments equal "
         "the sequential reference prover's for every NumCPU in {1,2,3,4,16} (thorough 1..16) and channel arrival order fifo/lifo, hence "
         "are a function of (label, commitments as group elements, polynomials, indices) only.",
    design_ref="DESIGN.md section 5 / C03 (O1)",
    note="As C01. The IPA prover itself (CreateIPAProof, 8 halving rounds at the real size) is executed and every L_k, R_k, transcript item "
         "and the final scalar compared with the specification's prover. Outside: serialisation (C10), hashing (C14), cross-implementation "
         "byte equality on concrete inputs (repository vectors / native replay).",
    technique="SSA symbolic execution + z3 identity checking, configuration enumeration (NumCPU, arrival order)")
CHECKS["C13"] = dict(
    category="proof",
    text="Write monitor (frame obligations, one solver query per protected cell) on the multiproof API harnesses: polynomials, indices, "
         "claimed values, commitments, proof object, IPAConfig (SRS, Q, weight tables) unchanged by CreateMultiProof / CheckMultiProof / "
         "grouping for n<=3 (shared-index batches included), and caller label/message buffers with spare capacity unchanged by the "
         "transcript; decoders, MSM scalars and group-operation operands carry the same obligations in C16, C05, C09, C08.",
    design_ref="DESIGN.md section 2.1 (write monitor), 5 / C13",
    note="Trusted: encoder, z3, stubs pure as declared. History independence is the inductive consequence of the frame condition.",
    technique="SSA symbolic execution with snapshot/compare frame obligations decided by z3")
CHECKS["C08"] = dict(
    category="proof",
    text="banderwagon.Element Add/Sub/Double/Neg/Set/SetIdentity/ScalarMul/AddMixed executed from SSA in the group domain for every "
         "aliasing pattern of receiver and operands over a 3-element pool (165 combinations): receiver = operation on the operands' "
         "previous values, other elements and package-level Generator/Identity unchanged, ScalarMul hands the regular value UNMONT(s) to "
         "the dependency for every scalar.",
    design_ref="DESIGN.md section 5 / C08 (O1)",
    note="Trusted: encoder, z3, gnark point formulas and GLV scalar multiplication summarised by the group law (dependency code, outside "
         "the claim), MONT/UNMONT bijection, math/big stub. The ring laws (s+t)P etc. are consequences.",
    technique="SSA symbolic execution in a formal-linear-combination group domain + SMT (z3 LIA/UF)")

CHECKS["C02"] = dict(
    category="proof",
    text="Decidable core of the verifier property: (1) shape totality - CheckMultiProof for all 64 combinations of len(Cs),len(ys),len(zs) "
         "in 0..3 and CheckIPAProof for all 100 combinations of len(L),len(R) in 0..9 executed from SSA: every malformed shape gives "
         "(false, error), no panic path reachable; (2) acceptance predicate - CheckIPAProof executed end to end (8 rounds, folding scalars, "
         "MSM, inner product) with all components symbolic: the returned boolean is the value of exactly one group-equality test whose two "
         "sides equal g0*a+(a*b0)*wQ and C+y*wQ+sum x_i L_i+x_i^-1 R_i coefficient by coefficient, and the transcript absorbs C, z, y, "
         "w, (L_i, R_i, x_i) in the specified order.",
    design_ref="DESIGN.md section 5 / C02",
    note="Rejection of EVERY wrong statement is a computational-soundness claim and not solver-decidable; what is decided is that the Go "
         "verifier evaluates the protocol's predicate and nothing weaker. Trusted: encoder, z3, summaries as in C01, computeBVector (C04/C18).",
    technique="SSA symbolic execution + z3 identity checking; enumeration of shapes")

CHECKS["C06"] = dict(
    category="proof",
    text="banderwagon.setBytes/SetBytes, SetBytesUncompressed(untrusted), subgroupCheck and bandersnatch.GetPointFromX/computeY executed from "
         "SSA over a symbolic byte string of every length in {0,1,31,32,33,63,64,65,66} (thorough 0..66): success exactly when the length is "
         "right, x is a canonical encoding, the right-hand side (a x^2-1)/(d x^2-1) is a square, the Legendre symbol of 1-a x^2 is +1 and "
         "(uncompressed) the y bytes equal the recomputed largest root; accepted input re-encodes to the same bytes, decodes with Z=1, "
         "satisfies the curve equation (cofactor certificate), input slice untouched, no panic.",
    design_ref="DESIGN.md section 5 / C06",
    note="Trusted: encoder, z3, canonical/reducing field decoders, SqrtPrecomp (C17) and Legendre as uninterpreted contracts, sign predicate. "
         "Outside: that the tests characterise the prime-order subgroup (number theory).",
    technique="SSA symbolic execution in the rational domain with uninterpreted field predicates + SMT")
CHECKS["C07"] = dict(
    category="proof",
    text="Element.Bytes / Equal / BytesUncompressedTrusted / SetBytesUncompressed(trusted) / MapToScalarField executed from SSA (with gnark's "
         "FromProj, Div) on free coordinate symbols (Y,Z non-zero; Z=1 fast path): Bytes, Equal and the map are invariant under projective "
         "scaling by any lambda, under (-X,-Y,Z), both, and normalisation; Equal reflexive/symmetric across representations and false "
         "whenever either side is the all-zero value; uncompressed trusted round trip Equal.",
    design_ref="DESIGN.md section 5 / C07",
    note="Trusted: encoder, z3 polynomial identities, sign predicate axiom, injective canonical encoding. Outside (number theory about d): "
         "x1 y2 = x2 y1 IMPLIES same class; decode(encode(P)) through the real decoder only on the native side and via C06.",
    technique="SSA symbolic execution into rational-function terms; identities by z3 polynomial normal form; congruence oracles for field predicates")
CHECKS["C11"] = dict(
    category="proof",
    text="MapToScalarField is IOTA(X/Y) (argument identical to X/Y, not Y/X, independent of Z) and invariant under every re-representation "
         "(C07 harness); BatchMapToScalarField equals the single-element map position by position for every pointer list of length <= 3 "
         "over a 3-element pool, including the identity element with stale result slots.",
    design_ref="DESIGN.md section 5 / C11",
    note="Trusted: as C07; the base-field-bytes -> scalar reduction is an uninterpreted function of the base-field value (byte-level "
         "behaviour of fp.BytesLE / fr.SetBytesLE is outside: C16 covers the scalar decoder).",
    technique="SSA symbolic execution into rational-function terms + z3 identity checking")
CHECKS["C19"] = dict(
    category="proof",
    text="ElementsToBytes, BatchToBytesUncompressed, BatchMapToScalarField and BatchNormalize executed from SSA on symbolic coordinates for "
         "every pointer list of length 0..3 (thorough 4) over a 3-element pool (all aliasing patterns), optional Z=1 / X=0 elements, one "
         "un-normalisable element at each position, both de-duplication map orders: batch = single position by position; BatchNormalize "
         "gives Z=1, X/Z, Y/Z on success and changes nothing on failure.",
    design_ref="DESIGN.md section 5 / C19",
    note="Trusted: as C07; gnark BatchInvert by contract. Outside: longer lists (partition boundaries are C20).",
    technique="SSA symbolic execution into rational-function terms + z3 identity checking; aliasing patterns enumerated")
CHECKS["C12"] = dict(
    category="other",
    text="Sufficient conditions for race freedom and absence of blocking, decided on the access/event log of symbolic runs of the real "
         "fan-out code (BatchNormalize, groupPolynomialsByEvaluationPoint, msmC4..8, partitionScalars, MultiExp split, CreateMultiProof): "
         "every pair of conflicting accesses from different goroutines is ordered by spawn / WaitGroup / channel happens-before; buffered "
         "sends never block, receives never wait on an empty channel after all senders finished, close after all sends, Wait counters "
         "return to zero; shared configuration only read (frame obligations).",
    design_ref="DESIGN.md section 5 / C12",
    note="NOT an exhaustive schedule exploration: interleavings are not enumerated; the claim is the data-race-freedom condition on the "
         "recorded accesses (sound when goroutine bodies do not branch on racing data). sync.Pool / sync.Once trusted; NewPrecompPoint and "
         "msmC9+ not covered.",
    technique="SSA symbolic execution with access/event logs; happens-before conditions as solver obligations")

NOT_YET = {}

ALL = ["C%02d" % i for i in range(1, 21)]


def main():
    checks = []
    for pid in ALL:
        if pid not in CHECKS:
            continue
        c = CHECKS[pid]
        checks.append({
            "property_id": pid,
            "quick_cmd": "python3-vt -m checks.run %s quick" % pid,
            "thorough_cmd": "python3-vt -m checks.run %s thorough" % pid,
            "evidence_file": "/verif/evidence/%s.json" % pid,
            "replay_cmd_template": "python3-vt -m checks.run %s --replay {path}" % pid,
            "engine": "gosmt",
            "level_claimed": {"category": c["category"], "text": c["text"], "design_ref": c["design_ref"]},
            "level_note": c["note"],
            "technique": c["technique"],
        })
    na = []
    for pid in ALL:
        if pid not in CHECKS:
            na.append({"property_id": pid, "reason": NOT_YET.get(pid, "check not built yet in this session (solver-based harness planned in DESIGN.md section 5)")})
    m = {
        "version": 1,
        "setup_cmd": "cd /verif && ./setup.sh",
        "hooks": {
            "guard": "overlay (no build tag): harness files /verif/harness/**/zz_verif_*.go are injected with go/packages Overlay and `go test -overlay`; nothing is written into /repo",
            "enable": "checks pass -overlay <generated json> to ssa2json / go test; with no overlay the repository builds unchanged",
            "baseline_off_cmd": "cd /repo && GOFLAGS=-mod=mod GOPROXY=off GOSUMDB=off go test -json -vet=off -count=1 -timeout 25m ./...",
            "source_commits": [],
            "add_only": True,
        },
        "engines": [{"name": "gosmt", "path": "/verif/gosmt", "serves_properties": sorted(CHECKS.keys()),
                     "kind_free_text": "symbolic executor for Go SSA (dumped by tools/ssa2json from /repo's current tree on every run) producing z3 queries; native replay of counterexamples through go test -overlay"}],
        "checks": checks,
        "not_applicable": na,
        "notes": "All checks regenerate their encoding from /repo's working tree on every run. INCONCLUSIVE lines (solver unknown / unsupported construct) lower the reported bound in evidence and never raise an alarm.",
    }
    json.dump(m, open(os.path.join(VERIF, "MANIFEST.json"), "w"), indent=1)


if __name__ == "__main__":
    main()
