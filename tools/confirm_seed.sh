#!/bin/bash
# usage: confirm_seed.sh <seed dir under /tmp/seed_out> -- confirms in a scratch worktree:
#  (1) suite passes with patch, (2) demo fails with patch, (3) demo passes without patch
set -u
src=$1; name=$(basename $src)
export GOFLAGS=-mod=mod GOPROXY=off GOSUMDB=off GOTOOLCHAIN=local
wt=/tmp/confirm_$name
base=${BASE:-$(cat /verif/seeded/BASE_COMMIT 2>/dev/null || echo 40dfd17)}
git -C /repo worktree add -q --detach $wt $base || exit 3
cd $wt
demo=$(cd $src && find . -name 'zz_seed_demo_test.go' | head -1)
demodir=$(dirname $demo)
res=/tmp/confirm_$name.result
{
git apply $src/patch.diff && echo "patch applied" || echo "PATCH-FAILED"
go build ./... && go test -vet=off -count=1 -timeout 25m ./... > /tmp/confirm_$name.suite.log 2>&1; echo "suite_with_patch_rc=$?"
cp $src/$demo $wt/$demo
go test -vet=off -count=1 -timeout 10m -run 'SeedDemo' ./$demodir > /tmp/confirm_$name.demo_with.log 2>&1; echo "demo_with_patch_rc=$?"
git checkout -q -- . 
go test -vet=off -count=1 -timeout 10m -run 'SeedDemo' ./$demodir > /tmp/confirm_$name.demo_without.log 2>&1; echo "demo_without_patch_rc=$?"
} > $res 2>&1
cd /
git -C /repo worktree remove --force $wt
cat $res
