// ssa2json loads packages of a Go module (with overlay files), builds SSA and
// dumps every function reachable from the given entry points as JSON for the
// Python symbolic executor in /verif/gosmt.
//
// usage: ssa2json -dir /repo -overlay overlay.json -entries pkg.Func,... \
//                 -allow prefix,prefix  -out out.json  pkgpattern...
package main

import (
	"encoding/json"
	"flag"
	"fmt"
	"go/constant"
	"go/token"
	"go/types"
	"os"
	"path/filepath"
	"sort"
	"strings"

	"golang.org/x/tools/go/packages"
	"golang.org/x/tools/go/ssa"
	"golang.org/x/tools/go/ssa/ssautil"
)

type J = map[string]interface{}

type dumper struct {
	prog    *ssa.Program
	types   map[string]J
	tseen   map[types.Type]string
	funcs   map[string]J
	fnByStr map[string]*ssa.Function
	work    []*ssa.Function
	queued  map[*ssa.Function]bool
	allow   []string
	globals map[string]J
	itabs   map[string]map[string]string
	fset    *token.FileSet
	extern  map[string]bool
}

func (d *dumper) allowed(fn *ssa.Function) bool {
	p := ""
	if fn.Pkg != nil {
		p = fn.Pkg.Pkg.Path()
	} else if fn.Origin() != nil && fn.Origin().Pkg != nil {
		p = fn.Origin().Pkg.Pkg.Path()
	} else if o := fn.Object(); o != nil && o.Pkg() != nil {
		p = o.Pkg().Path()
	} else if fn.Parent() != nil {
		return d.allowed(fn.Parent())
	} else {
		// synthetic wrapper/thunk/bound without package: allow (small)
		return true
	}
	for _, a := range d.allow {
		if p == a || (strings.HasSuffix(a, "/...") && (p == strings.TrimSuffix(a, "/...") || strings.HasPrefix(p, strings.TrimSuffix(a, "...")))) {
			return true
		}
	}
	return false
}

func (d *dumper) enqueue(fn *ssa.Function) {
	if fn == nil || d.queued[fn] {
		return
	}
	d.queued[fn] = true
	d.work = append(d.work, fn)
}

func qual(p *types.Package) string { return p.Path() }

func (d *dumper) tid(t types.Type) string {
	if t == nil {
		return ""
	}
	if s, ok := d.tseen[t]; ok {
		return s
	}
	s := types.TypeString(t, qual)
	if al, ok := t.(*types.Alias); ok {
		// an alias that prints like its target (e.g. any) must not become a self-referential entry
		if types.TypeString(types.Unalias(al), qual) == s {
			r := d.tid(types.Unalias(al))
			d.tseen[t] = r
			return r
		}
	}
	d.tseen[t] = s
	if _, ok := d.types[s]; ok {
		return s
	}
	desc := J{}
	d.types[s] = desc // break cycles
	switch tt := t.(type) {
	case *types.Basic:
		desc["kind"] = "basic"
		desc["name"] = tt.Name()
	case *types.Alias:
		desc["kind"] = "alias"
		desc["to"] = d.tid(types.Unalias(tt))
	case *types.Named:
		desc["kind"] = "named"
		desc["name"] = s
		desc["under"] = d.tid(tt.Underlying())
	case *types.Pointer:
		desc["kind"] = "pointer"
		desc["elem"] = d.tid(tt.Elem())
	case *types.Slice:
		desc["kind"] = "slice"
		desc["elem"] = d.tid(tt.Elem())
	case *types.Array:
		desc["kind"] = "array"
		desc["elem"] = d.tid(tt.Elem())
		desc["len"] = tt.Len()
	case *types.Struct:
		desc["kind"] = "struct"
		fs := []J{}
		for i := 0; i < tt.NumFields(); i++ {
			f := tt.Field(i)
			fs = append(fs, J{"name": f.Name(), "type": d.tid(f.Type())})
		}
		desc["fields"] = fs
	case *types.Tuple:
		desc["kind"] = "tuple"
		es := []string{}
		for i := 0; i < tt.Len(); i++ {
			es = append(es, d.tid(tt.At(i).Type()))
		}
		desc["elems"] = es
	case *types.Signature:
		desc["kind"] = "func"
		desc["results"] = d.tid(tt.Results())
	case *types.Interface:
		desc["kind"] = "interface"
		ms := []string{}
		for i := 0; i < tt.NumMethods(); i++ {
			ms = append(ms, tt.Method(i).Name())
		}
		desc["methods"] = ms
	case *types.Map:
		desc["kind"] = "map"
		desc["key"] = d.tid(tt.Key())
		desc["elem"] = d.tid(tt.Elem())
	case *types.Chan:
		desc["kind"] = "chan"
		desc["elem"] = d.tid(tt.Elem())
	case *types.TypeParam:
		desc["kind"] = "typeparam"
	default:
		desc["kind"] = "unknown"
		desc["go"] = fmt.Sprintf("%T", t)
	}
	return s
}

func (d *dumper) fname(fn *ssa.Function) string {
	return fn.String()
}

func (d *dumper) val(v ssa.Value) interface{} {
	switch x := v.(type) {
	case nil:
		return nil
	case *ssa.Const:
		c := J{"k": "const", "t": d.tid(x.Type())}
		if x.Value == nil {
			c["v"] = nil
		} else {
			switch x.Value.Kind() {
			case constant.Bool:
				c["v"] = constant.BoolVal(x.Value)
			case constant.String:
				c["v"] = constant.StringVal(x.Value)
				c["str"] = true
			case constant.Int:
				c["v"] = x.Value.ExactString()
				c["int"] = true
			case constant.Float:
				c["v"] = x.Value.ExactString()
				c["float"] = true
			default:
				c["v"] = x.Value.ExactString()
				c["other"] = true
			}
		}
		return c
	case *ssa.Global:
		name := x.Pkg.Pkg.Path() + "." + x.Name()
		if _, ok := d.globals[name]; !ok {
			d.globals[name] = J{"type": d.tid(x.Type()), "pkg": x.Pkg.Pkg.Path(), "name": x.Name()}
		}
		return J{"k": "global", "n": name}
	case *ssa.Function:
		d.enqueue(x)
		return J{"k": "func", "n": d.fname(x)}
	case *ssa.Builtin:
		return J{"k": "builtin", "n": x.Name()}
	case *ssa.Parameter:
		return "p:" + x.Name()
	case *ssa.FreeVar:
		return "f:" + x.Name()
	default:
		return "r:" + v.Name()
	}
}

func (d *dumper) vals(vs []ssa.Value) []interface{} {
	out := make([]interface{}, len(vs))
	for i, v := range vs {
		out[i] = d.val(v)
	}
	return out
}

func (d *dumper) callCommon(c *ssa.CallCommon) J {
	out := J{"args": d.vals(c.Args)}
	if c.IsInvoke() {
		out["mode"] = "invoke"
		out["recv"] = d.val(c.Value)
		out["method"] = c.Method.Name()
		out["iface"] = d.tid(c.Value.Type())
	} else if b, ok := c.Value.(*ssa.Builtin); ok {
		out["mode"] = "builtin"
		out["fn"] = b.Name()
	} else if f := c.StaticCallee(); f != nil {
		out["mode"] = "static"
		out["fn"] = d.fname(f)
		d.enqueue(f)
		if mc, ok := c.Value.(*ssa.MakeClosure); ok {
			out["closure"] = d.val(mc)
		}
	} else {
		out["mode"] = "dynamic"
		out["value"] = d.val(c.Value)
	}
	if c.Signature() != nil {
		out["results"] = d.tid(c.Signature().Results())
	}
	return out
}

func (d *dumper) registerItab(t types.Type) {
	s := d.tid(t)
	if _, ok := d.itabs[s]; ok {
		return
	}
	m := map[string]string{}
	d.itabs[s] = m
	ms := d.prog.MethodSets.MethodSet(t)
	for i := 0; i < ms.Len(); i++ {
		sel := ms.At(i)
		fn := d.prog.MethodValue(sel)
		if fn != nil {
			m[sel.Obj().Name()] = d.fname(fn)
			// do not enqueue eagerly: only dump when the executor asks (second pass),
			// except for allowed packages where cost is small.
			if d.allowed(fn) {
				d.enqueue(fn)
			}
		}
	}
}

func (d *dumper) instr(in ssa.Instruction) J {
	o := J{}
	if v, ok := in.(ssa.Value); ok {
		o["name"] = v.Name()
		o["type"] = d.tid(v.Type())
	}
	if p := in.Pos(); p.IsValid() {
		pp := d.fset.Position(p)
		o["pos"] = fmt.Sprintf("%s:%d", filepath.Base(pp.Filename), pp.Line)
	}
	switch x := in.(type) {
	case *ssa.Alloc:
		o["op"] = "Alloc"
		o["heap"] = x.Heap
		o["elem"] = d.tid(x.Type().Underlying().(*types.Pointer).Elem())
		o["comment"] = x.Comment
	case *ssa.BinOp:
		o["op"] = "BinOp"
		o["bop"] = x.Op.String()
		o["x"] = d.val(x.X)
		o["y"] = d.val(x.Y)
		o["xt"] = d.tid(x.X.Type())
		o["yt"] = d.tid(x.Y.Type())
	case *ssa.UnOp:
		o["op"] = "UnOp"
		o["uop"] = x.Op.String()
		o["x"] = d.val(x.X)
		o["commaok"] = x.CommaOk
		o["xt"] = d.tid(x.X.Type())
	case *ssa.Call:
		o["op"] = "Call"
		o["call"] = d.callCommon(&x.Call)
	case *ssa.Go:
		o["op"] = "Go"
		o["call"] = d.callCommon(&x.Call)
	case *ssa.Defer:
		o["op"] = "Defer"
		o["call"] = d.callCommon(&x.Call)
	case *ssa.ChangeInterface:
		o["op"] = "ChangeInterface"
		o["x"] = d.val(x.X)
	case *ssa.ChangeType:
		o["op"] = "ChangeType"
		o["x"] = d.val(x.X)
	case *ssa.Convert:
		o["op"] = "Convert"
		o["x"] = d.val(x.X)
		o["xt"] = d.tid(x.X.Type())
	case *ssa.MultiConvert:
		o["op"] = "Convert"
		o["x"] = d.val(x.X)
		o["xt"] = d.tid(x.X.Type())
	case *ssa.Extract:
		o["op"] = "Extract"
		o["tuple"] = d.val(x.Tuple)
		o["index"] = x.Index
	case *ssa.Field:
		o["op"] = "Field"
		o["x"] = d.val(x.X)
		o["field"] = x.Field
		o["xt"] = d.tid(x.X.Type())
	case *ssa.FieldAddr:
		o["op"] = "FieldAddr"
		o["x"] = d.val(x.X)
		o["field"] = x.Field
		o["xt"] = d.tid(x.X.Type())
	case *ssa.Index:
		o["op"] = "Index"
		o["x"] = d.val(x.X)
		o["index"] = d.val(x.Index)
		o["xt"] = d.tid(x.X.Type())
	case *ssa.IndexAddr:
		o["op"] = "IndexAddr"
		o["x"] = d.val(x.X)
		o["index"] = d.val(x.Index)
		o["xt"] = d.tid(x.X.Type())
	case *ssa.Lookup:
		o["op"] = "Lookup"
		o["x"] = d.val(x.X)
		o["index"] = d.val(x.Index)
		o["commaok"] = x.CommaOk
		o["xt"] = d.tid(x.X.Type())
	case *ssa.MakeChan:
		o["op"] = "MakeChan"
		o["size"] = d.val(x.Size)
	case *ssa.MakeClosure:
		o["op"] = "MakeClosure"
		o["fn"] = d.val(x.Fn)
		o["bindings"] = d.vals(x.Bindings)
	case *ssa.MakeInterface:
		o["op"] = "MakeInterface"
		o["x"] = d.val(x.X)
		o["xt"] = d.tid(x.X.Type())
		d.registerItab(x.X.Type())
	case *ssa.MakeMap:
		o["op"] = "MakeMap"
	case *ssa.MakeSlice:
		o["op"] = "MakeSlice"
		o["len"] = d.val(x.Len)
		o["cap"] = d.val(x.Cap)
	case *ssa.MapUpdate:
		o["op"] = "MapUpdate"
		o["map"] = d.val(x.Map)
		o["key"] = d.val(x.Key)
		o["value"] = d.val(x.Value)
	case *ssa.Next:
		o["op"] = "Next"
		o["iter"] = d.val(x.Iter)
		o["isstring"] = x.IsString
	case *ssa.Range:
		o["op"] = "Range"
		o["x"] = d.val(x.X)
		o["xt"] = d.tid(x.X.Type())
	case *ssa.Phi:
		o["op"] = "Phi"
		o["edges"] = d.vals(x.Edges)
		o["comment"] = x.Comment
	case *ssa.Slice:
		o["op"] = "Slice"
		o["x"] = d.val(x.X)
		o["low"] = d.val(x.Low)
		o["high"] = d.val(x.High)
		o["max"] = d.val(x.Max)
		o["xt"] = d.tid(x.X.Type())
	case *ssa.SliceToArrayPointer:
		o["op"] = "SliceToArrayPointer"
		o["x"] = d.val(x.X)
	case *ssa.TypeAssert:
		o["op"] = "TypeAssert"
		o["x"] = d.val(x.X)
		o["asserted"] = d.tid(x.AssertedType)
		o["commaok"] = x.CommaOk
	case *ssa.Store:
		o["op"] = "Store"
		o["addr"] = d.val(x.Addr)
		o["val"] = d.val(x.Val)
		o["vt"] = d.tid(x.Val.Type())
	case *ssa.Send:
		o["op"] = "Send"
		o["chan"] = d.val(x.Chan)
		o["x"] = d.val(x.X)
	case *ssa.If:
		o["op"] = "If"
		o["cond"] = d.val(x.Cond)
	case *ssa.Jump:
		o["op"] = "Jump"
	case *ssa.Return:
		o["op"] = "Return"
		o["results"] = d.vals(x.Results)
	case *ssa.Panic:
		o["op"] = "Panic"
		o["x"] = d.val(x.X)
	case *ssa.RunDefers:
		o["op"] = "RunDefers"
	case *ssa.DebugRef:
		return nil
	case *ssa.Select:
		o["op"] = "Select"
	default:
		o["op"] = "Unknown"
		o["go"] = fmt.Sprintf("%T", in)
	}
	return o
}

func (d *dumper) dumpFunc(fn *ssa.Function) {
	name := d.fname(fn)
	if _, ok := d.funcs[name]; ok {
		return
	}
	o := J{"name": name}
	d.funcs[name] = o
	if fn.Pkg != nil {
		o["pkg"] = fn.Pkg.Pkg.Path()
	}
	o["synthetic"] = fn.Synthetic
	if fn.Signature != nil {
		o["results"] = d.tid(fn.Signature.Results())
		o["recv"] = fn.Signature.Recv() != nil
	}
	ps := []J{}
	for _, p := range fn.Params {
		ps = append(ps, J{"name": p.Name(), "type": d.tid(p.Type())})
	}
	o["params"] = ps
	fvs := []J{}
	for _, p := range fn.FreeVars {
		fvs = append(fvs, J{"name": p.Name(), "type": d.tid(p.Type())})
	}
	o["freevars"] = fvs
	if len(fn.Blocks) == 0 || !d.allowed(fn) {
		o["external"] = true
		if len(fn.Blocks) != 0 {
			o["notallowed"] = true
		}
		d.extern[name] = true
		return
	}
	blocks := []J{}
	for _, b := range fn.Blocks {
		bj := J{"index": b.Index, "comment": b.Comment}
		preds := []int{}
		for _, p := range b.Preds {
			preds = append(preds, p.Index)
		}
		succs := []int{}
		for _, s := range b.Succs {
			succs = append(succs, s.Index)
		}
		bj["preds"] = preds
		bj["succs"] = succs
		ins := []J{}
		for _, in := range b.Instrs {
			if ij := d.instr(in); ij != nil {
				ins = append(ins, ij)
			}
		}
		bj["instrs"] = ins
		blocks = append(blocks, bj)
	}
	o["blocks"] = blocks
	if fn.Recover != nil {
		o["recover"] = fn.Recover.Index
	}
}

func main() {
	dir := flag.String("dir", "/repo", "module dir")
	overlayFile := flag.String("overlay", "", "json file {virtual path: real path}")
	entries := flag.String("entries", "", "comma separated entry function names (pkgpath.Func)")
	allow := flag.String("allow", "", "comma separated package paths (or prefix/...) whose function bodies are dumped")
	out := flag.String("out", "", "output file")
	tags := flag.String("tags", "", "build tags")
	flag.Parse()

	overlay := map[string][]byte{}
	if *overlayFile != "" {
		raw, err := os.ReadFile(*overlayFile)
		if err != nil {
			fatal(err)
		}
		m := map[string]string{}
		if err := json.Unmarshal(raw, &m); err != nil {
			fatal(err)
		}
		for virt, real := range m {
			b, err := os.ReadFile(real)
			if err != nil {
				fatal(err)
			}
			overlay[virt] = b
		}
	}
	cfg := &packages.Config{
		Mode:    packages.LoadAllSyntax,
		Dir:     *dir,
		Overlay: overlay,
		Env:     append(os.Environ(), "GOFLAGS=-mod=mod", "GOPROXY=off", "GOSUMDB=off", "GOTOOLCHAIN=local"),
	}
	if *tags != "" {
		cfg.BuildFlags = []string{"-tags=" + *tags}
	}
	pats := flag.Args()
	if len(pats) == 0 {
		pats = []string{"./..."}
	}
	pkgs, err := packages.Load(cfg, pats...)
	if err != nil {
		fatal(err)
	}
	nerr := 0
	packages.Visit(pkgs, nil, func(p *packages.Package) {
		for _, e := range p.Errors {
			fmt.Fprintln(os.Stderr, "load error:", e)
			nerr++
		}
	})
	if nerr > 0 {
		fatal(fmt.Errorf("%d package load errors", nerr))
	}
	prog, _ := ssautil.AllPackages(pkgs, ssa.InstantiateGenerics)
	prog.Build()

	d := &dumper{prog: prog, types: map[string]J{}, tseen: map[types.Type]string{}, funcs: map[string]J{},
		queued: map[*ssa.Function]bool{}, globals: map[string]J{}, itabs: map[string]map[string]string{},
		fset: prog.Fset, extern: map[string]bool{}}
	for _, a := range strings.Split(*allow, ",") {
		if a != "" {
			d.allow = append(d.allow, a)
		}
	}
	// index all functions by String()
	all := ssautil.AllFunctions(prog)
	byName := map[string]*ssa.Function{}
	for fn := range all {
		byName[fn.String()] = fn
	}
	missing := []string{}
	for _, e := range strings.Split(*entries, ",") {
		if e == "" {
			continue
		}
		if strings.HasSuffix(e, ".*") {
			// all functions of a package with a name prefix Verif
			pp := strings.TrimSuffix(e, ".*")
			for name, fn := range byName {
				if fn.Pkg != nil && fn.Pkg.Pkg.Path() == pp && fn.Parent() == nil && strings.HasPrefix(fn.Name(), "Verif") {
					_ = name
					d.enqueue(fn)
				}
			}
			continue
		}
		fn := byName[e]
		if fn == nil {
			missing = append(missing, e)
			continue
		}
		d.enqueue(fn)
	}
	// package init functions of allowed packages are entries as well (for reference only)
	for len(d.work) > 0 {
		fn := d.work[len(d.work)-1]
		d.work = d.work[:len(d.work)-1]
		d.dumpFunc(fn)
	}
	ext := []string{}
	for n := range d.extern {
		ext = append(ext, n)
	}
	sort.Strings(ext)
	res := J{"types": d.types, "funcs": d.funcs, "globals": d.globals, "itabs": d.itabs, "missing_entries": missing, "externals": ext}
	raw, err := json.Marshal(res)
	if err != nil {
		fatal(err)
	}
	if *out == "" {
		os.Stdout.Write(raw)
	} else if err := os.WriteFile(*out, raw, 0o644); err != nil {
		fatal(err)
	}
}

func fatal(err error) {
	fmt.Fprintln(os.Stderr, "ssa2json:", err)
	os.Exit(2)
}
