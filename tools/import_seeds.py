#!/usr/bin/env python3
"""copies confirmed seeded changes from /tmp/seed_out into /verif/seeded/<id>/ with meta.json"""
import json, os, re, shutil, sys
OUT = "/verif/seeded"
SRC = sys.argv[1] if len(sys.argv) > 1 else "/tmp/seed_out"
BASE = sys.argv[2] if len(sys.argv) > 2 else open(os.path.join(OUT, "BASE_COMMIT")).read().strip()
for name in sorted(os.listdir(SRC)):
    src = os.path.join(SRC, name)
    resf = "/tmp/confirm_%s.result" % name
    if not os.path.exists(resf):
        continue
    res = open(resf).read()
    ok = "suite_with_patch_rc=0" in res and "demo_with_patch_rc=1" in res and "demo_without_patch_rc=0" in res and "PATCH-FAILED" not in res
    if not ok:
        print("NOT CONFIRMED", name, res.replace("\n", " "))
        continue
    dst = os.path.join(OUT, name)
    if os.path.exists(dst):
        meta_old = json.load(open(os.path.join(dst, "meta.json")))
    else:
        meta_old = {}
    os.makedirs(dst, exist_ok=True)
    shutil.copy(os.path.join(src, "patch.diff"), dst)
    demos = []
    for root, dirs, files in os.walk(src):
        for f in files:
            if f.endswith("_test.go"):
                rel = os.path.relpath(os.path.join(root, f), src)
                os.makedirs(os.path.dirname(os.path.join(dst, "demo", rel)), exist_ok=True)
                shutil.copy(os.path.join(root, f), os.path.join(dst, "demo", rel + ".txt"))
                demos.append(rel)
    notes = open(os.path.join(src, "notes.md")).read() if os.path.exists(os.path.join(src, "notes.md")) else ""
    shutil.copy(os.path.join(src, "notes.md"), os.path.join(dst, "notes.md")) if notes else None
    patch = open(os.path.join(src, "patch.diff")).read()
    files = re.findall(r"^\+\+\+ b/(.*)$", patch, re.M)
    meta = {
        "id": name, "property": name[:3], "files_changed": files, "demo": ["demo/" + d + ".txt (place at " + d + ")" for d in demos],
        "needs_to_manifest": meta_old.get("needs_to_manifest", "see notes.md (written by the independent sub-agent that produced the change)"),
        "confirmed": {"how": "tools/confirm_seed.sh in a scratch git worktree of /repo@" + open(os.path.join(OUT, "BASE_COMMIT")).read().strip(),
                      "suite_with_patch": "pass", "demo_with_patch": "fail", "demo_without_patch": "pass"},
        "detected_by": meta_old.get("detected_by", "not run yet"),
    }
    json.dump(meta, open(os.path.join(dst, "meta.json"), "w"), indent=1)
    print("imported", name)
