"""Value model of the SSA symbolic executor.

Concrete machine integers are Python ints (normalised to the range of their Go type),
symbolic ones are z3 terms: BitVec of the Go width in 'bv' mode, Int in 'int' mode.
Booleans are Python bools or z3 BoolRef.  Everything else is a small Python object.
"""
import z3


class Unsupported(Exception):
    """The encoder cannot translate something: the obligation becomes INCONCLUSIVE."""


class PathDead(Exception):
    pass


class Ptr:
    __slots__ = ("obj", "off", "sym", "tid")

    def __init__(self, obj, off=0, sym=(), tid=None):
        self.obj = obj      # object id
        self.off = off      # concrete flat cell offset
        self.sym = sym      # tuple of (index_term, stride, count): symbolic part of the offset
        self.tid = tid      # pointee type id (may be None)

    def __repr__(self):
        return "Ptr(%s+%s%s)" % (self.obj, self.off, "+sym" if self.sym else "")

    def key(self):
        return (self.obj, self.off, tuple((str(t), s, c) for t, s, c in self.sym))


class Slice:
    __slots__ = ("ptr", "len", "cap", "elem")

    def __init__(self, ptr, ln, cap, elem):
        self.ptr = ptr      # Ptr to element 0, or None for nil
        self.len = ln
        self.cap = cap
        self.elem = elem    # element type id

    def __repr__(self):
        return "Slice(%r,len=%s,cap=%s)" % (self.ptr, self.len, self.cap)


class Iface:
    __slots__ = ("tid", "val")

    def __init__(self, tid, val):
        self.tid = tid
        self.val = val

    def __repr__(self):
        return "Iface(%s,%r)" % (self.tid, self.val)


class Closure:
    __slots__ = ("fn", "bindings")

    def __init__(self, fn, bindings=()):
        self.fn = fn
        self.bindings = tuple(bindings)

    def __repr__(self):
        return "Closure(%s)" % self.fn


class Builtin:
    __slots__ = ("name",)

    def __init__(self, name):
        self.name = name


class Chan:
    __slots__ = ("id", "cap")

    def __init__(self, id_, cap):
        self.id = id_
        self.cap = cap


class GoMap:
    __slots__ = ("id",)

    def __init__(self, id_):
        self.id = id_


class MapIter:
    __slots__ = ("items", "pos")

    def __init__(self, items):
        self.items = items
        self.pos = 0


class Guarded:
    """ite over non-scalar values: list of (guard, value); guards are exclusive and exhaustive
    under the path condition where the value is used."""
    __slots__ = ("cases",)

    def __init__(self, cases):
        self.cases = cases

    def __repr__(self):
        return "Guarded(%d)" % len(self.cases)


def is_term(v):
    return isinstance(v, z3.ExprRef)


def is_conc_int(v):
    return isinstance(v, int) and not isinstance(v, bool)


def b_and(*xs):
    out = []
    for x in xs:
        if x is True:
            continue
        if x is False:
            return False
        out.append(x)
    if not out:
        return True
    if len(out) == 1:
        return out[0]
    return z3.And(*out)


def b_or(*xs):
    out = []
    for x in xs:
        if x is False:
            continue
        if x is True:
            return True
        out.append(x)
    if not out:
        return False
    if len(out) == 1:
        return out[0]
    return z3.Or(*out)


def b_not(x):
    if x is True:
        return False
    if x is False:
        return True
    if z3.is_not(x):
        return x.arg(0)
    return z3.Not(x)


def b_implies(a, b):
    return b_or(b_not(a), b)


def b_term(x):
    if x is True:
        return z3.BoolVal(True)
    if x is False:
        return z3.BoolVal(False)
    return x


def simp_bool(x):
    if isinstance(x, bool):
        return x
    s = z3.simplify(x)
    if z3.is_true(s):
        return True
    if z3.is_false(s):
        return False
    return s


def cases_of(v):
    """flatten a possibly Guarded value into [(guard, value)]"""
    if isinstance(v, Guarded):
        out = []
        for g, x in v.cases:
            for g2, y in cases_of(x):
                gg = b_and(g, g2)
                if gg is not False:
                    out.append((gg, y))
        return out
    return [(True, v)]
