"""Go builtins."""
import z3
from .values import (Unsupported, Ptr, Slice, Guarded, GoMap, Chan, is_term, b_and, b_or, b_not, simp_bool, cases_of)


def conc(ex, v, what):
    if is_term(v):
        s = z3.simplify(v)
        if z3.is_bv_value(s) or z3.is_int_value(s):
            return s.as_long()
        u = ex.unique_value(v)
        if u is not None:
            if z3.is_bv(v) and u >= (1 << (v.size() - 1)):
                u -= 1 << v.size()
            return u
        raise Unsupported("symbolic %s" % what)
    return v


def b_len(ex, x, ins):
    if isinstance(x, str):
        return len(x.encode("latin-1"))
    if isinstance(x, tuple) and x and x[0] == "symstr":
        return len(x[1])
    if isinstance(x, GoMap):
        return len(ex.store[("M", x.id)])
    if isinstance(x, Chan):
        return len(ex.store[("C", x.id)])
    if x is None:
        return 0
    cs = cases_of(x)
    res = None
    for g, s in reversed(cs):
        l = s.len
        res = l if res is None else ex.vite(g, l, res, "int")
    if is_term(res) and z3.is_app_of(res, z3.Z3_OP_ITE):
        # merged length: often a single value under the current path condition
        u = ex.unique_value(res)
        if u is not None:
            return u
    return res


def b_cap(ex, x, ins):
    if isinstance(x, Chan):
        return x.cap
    cs = cases_of(x)
    res = None
    for g, s in reversed(cs):
        l = s.cap
        res = l if res is None else ex.vite(g, l, res, "int")
    return res


def b_append(ex, args, ins):
    p = ex.prog
    s, t = args[0], args[1] if len(args) > 1 else None
    elem = p.under(ins["type"])["elem"]
    stride = p.ncells(elem)
    if isinstance(s, Guarded) or isinstance(t, Guarded):
        raise Unsupported("append on guarded slice")
    if t is None:
        return s
    if isinstance(t, str):
        bs = list(t.encode("latin-1"))
        tl = len(bs)
        tcells = bs
    else:
        tl = conc(ex, t.len, "append length")
        tcells = []
        for i in range(tl):
            v = ex.load(Ptr(t.ptr.obj, t.ptr.off + i * stride, t.ptr.sym), elem)
            tcells.extend(ex.to_cells(v, elem))
    sl = conc(ex, s.len, "append base length")
    sc = conc(ex, s.cap, "append base cap")
    if sl + tl <= sc and s.ptr is not None:
        for i in range(tl):
            v = ex.from_cells(tcells[i * stride:(i + 1) * stride], elem)
            ex.store_to(Ptr(s.ptr.obj, s.ptr.off + (sl + i) * stride, s.ptr.sym), v, elem)
        return Slice(s.ptr, sl + tl, sc, elem)
    ncap = max(sl + tl, 2 * sc, 4)
    cells = []
    for i in range(sl):
        v = ex.load(Ptr(s.ptr.obj, s.ptr.off + i * stride, s.ptr.sym), elem)
        cells.extend(ex.to_cells(v, elem))
    cells.extend(tcells)
    lay = p.layout(elem)
    for i in range(ncap - sl - tl):
        cells.extend(ex.zero_leaf(tt) for tt in lay)
    ptr = ex.alloc(elem, label="append@" + ins.get("pos", ""), cells=cells, count=ncap)
    return Slice(ptr, sl + tl, ncap, elem)


def b_copy(ex, args, ins):
    p = ex.prog
    d, s = args
    if isinstance(d, Guarded) or isinstance(s, Guarded):
        raise Unsupported("copy on guarded slice")
    elem = d.elem
    stride = p.ncells(elem)
    if isinstance(s, str):
        bs = list(s.encode("latin-1"))
        n = min(conc(ex, d.len, "copy len"), len(bs))
        for i in range(n):
            ex.store_to(Ptr(d.ptr.obj, d.ptr.off + i, d.ptr.sym), bs[i], "uint8")
        return n
    dl, sl = conc(ex, d.len, "copy length"), conc(ex, s.len, "copy length")
    n = min(dl, sl)
    vals = [ex.load(Ptr(s.ptr.obj, s.ptr.off + i * stride, s.ptr.sym), elem) for i in range(n)]
    for i in range(n):
        ex.store_to(Ptr(d.ptr.obj, d.ptr.off + i * stride, d.ptr.sym), vals[i], elem)
    return n


def call_builtin(ex, fr, name, args, ins, call):
    if name == "len":
        return b_len(ex, args[0], ins)
    if name == "cap":
        return b_cap(ex, args[0], ins)
    if name == "append":
        return b_append(ex, args, ins)
    if name == "copy":
        return b_copy(ex, args, ins)
    if name == "close":
        from .conc import chan_close
        chan_close(ex, args[0])
        return None
    if name in ("min", "max"):
        a, b = args
        if is_term(a) or is_term(b):
            raise Unsupported("symbolic min/max")
        return min(a, b) if name == "min" else max(a, b)
    if name == "delete":
        raise Unsupported("delete")
    if name in ("print", "println"):
        return None
    if name == "ssa:wrapnilchk":
        if args[0] is None:
            ex.panic_if(True, "nil receiver in wrapper")
        return args[0]
    raise Unsupported("builtin " + name)
