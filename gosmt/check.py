"""Common scaffolding of a property check: groups of obligations, replay, known findings, evidence."""
import json
import os
import re
import subprocess
import sys
import time
import traceback

from .values import Unsupported
from . import driver as D

VERIF = D.VERIF
KNOWN = os.path.join(VERIF, "known_findings.txt")


def load_known():
    out = []
    if os.path.exists(KNOWN):
        for line in open(KNOWN):
            line = line.strip()
            m = re.match(r"finding:\s+property=(\S+)\s+key=(\S+)\s*(.*)", line)
            if m:
                out.append((m.group(1), m.group(2), m.group(3)))
    return out


class Report:
    def __init__(self, prop, tier, seed):
        self.prop = prop
        self.tier = tier
        self.seed = seed
        self.t0 = time.time()
        self.groups = []
        self.violations = []      # dicts: key, label, group, model, replay
        self.inconclusive = []
        self.known_hits = []
        self.assumptions = []
        self.trusted = ["gosmt SSA->SMT encoder (/verif/gosmt)", "z3 4.x/5.1 (python API 5.1.0)", "go/ssa v0.29.0 lowering of the Go source"]
        self.functions_encoded = {}
        self.stubs = {}
        self.bounds = {}
        self.samples = []
        self.n_obl = 0
        self.n_dis = 0
        self.n_reach = 0
        self.n_reach_ok = 0
        self.n_unwind = 0
        self.n_unwind_ok = 0
        self.solver_s = 0.0
        self.exec_s = 0.0
        self.queries = {"sat": 0, "unsat": 0, "unknown": 0}
        self.explanations = []
        self.spurious_keys = set()
        self.n_replays = 0
        self.cross = []
        self.max_replays = 6

    # ------------------------------------------------------------------
    def note_ctx(self, ctx):
        for k, v in ctx.functions_encoded.items():
            self.functions_encoded[k] = v
        for k, v in ctx.stubs_used.items():
            self.stubs[k] = self.stubs.get(k, 0) + v
        self.exec_s += getattr(ctx, "exec_s", 0.0)

    def add(self, group, recs, ctx=None, key_prefix="", replay=None, sample=True):
        """record discharged obligations of one harness run.
        replay: callable(rec) -> (reproduced: bool|None, path) used for violated records."""
        if ctx is not None:
            self.note_ctx(ctx)
        g = {"group": group, "obligations": 0, "discharged": 0, "violated": 0, "inconclusive": 0, "time_s": 0.0}
        for r in recs:
            for xc in r.get("cross_check", []) or []:
                self.cross.append(dict(xc, group=group))
                if not xc.get("agree", True):
                    self.inconclusive.append({"group": group, "label": xc["label"], "reason": "solver disagreement in cross-check: %s" % xc})
            st = r["status"]
            self.queries["sat" if st == "sat" else "unsat" if st == "unsat" else "unknown"] += 1
            self.solver_s += r.get("time_s", 0.0)
            g["time_s"] += r.get("time_s", 0.0)
            if r["kind"] == "reach":
                self.n_reach += 1
                if r["verdict"] == "reached":
                    self.n_reach_ok += 1
                elif r["verdict"] == "vacuous":
                    self.inconclusive.append({"group": group, "label": r["label"], "reason": "harness vacuous: end not reachable"})
                    g["inconclusive"] += 1
                else:
                    self.inconclusive.append({"group": group, "label": r["label"], "reason": r["status"]})
                    g["inconclusive"] += 1
                continue
            if r["kind"] == "unwind":
                self.n_unwind += 1
                if r["ok"]:
                    self.n_unwind_ok += 1
            self.n_obl += 1
            g["obligations"] += 1
            if r["ok"]:
                self.n_dis += 1
                g["discharged"] += 1
            elif r["verdict"] == "violated" and r["kind"] != "unwind":
                g["violated"] += 1
                self._violation(group, r, key_prefix, replay)
            else:
                g["inconclusive"] += 1
                self.inconclusive.append({"group": group, "label": r["label"], "reason": r["status"] if r["kind"] != "unwind" else "unwinding bound too small"})
        if sample and recs and len(self.samples) < 12:
            r = recs[min(len(recs) - 1, len(recs) // 2)]
            self.samples.append({"group": group, "obligation": r["label"], "kind": r["kind"], "status": r["status"],
                                 "time_s": r.get("time_s"), "pos": r.get("pos", "")})
        self.groups.append(g)
        return g

    def _violation(self, group, r, key_prefix, replay):
        key = (key_prefix or group) + ":" + re.sub(r"\s+", "_", r["label"])
        key = re.sub(r"[^A-Za-z0-9_:.\-\[\]]", "", key)
        key = re.sub(r"_cell_\d+", "", key)
        key = re.sub(r"window_\d+", "window", key)
        key = re.sub(r"\d+", "N", key)
        v = {"key": key, "group": group, "label": r["label"], "model": r.get("model"), "replay": None, "reproduced": None}
        for old in self.violations:
            if old["key"] == key:
                old["also_in"] = old.get("also_in", 0) + 1
                return
        if key in self.spurious_keys:
            return
        if replay is not None and self.n_replays >= self.max_replays:
            v["reproduced"] = None
            v["replay_skipped"] = "replay budget exhausted"
            if self.violations:
                self.violations[-1]["also_in"] = self.violations[-1].get("also_in", 0) + 1
                return
        elif replay is not None:
            self.n_replays += 1
            try:
                rep, path = replay(r)
            except Exception as e:  # noqa
                rep, path = None, None
                v["replay_error"] = repr(e)
            v["reproduced"] = rep
            v["replay"] = path
            if rep is False:
                self.spurious_keys.add(key)
                self.inconclusive.append({"group": group, "label": r["label"], "reason": "counterexample did not reproduce natively (spurious)", "model": r.get("model")})
                return
        self.violations.append(v)

    def inconclusive_group(self, group, reason):
        self.inconclusive.append({"group": group, "label": "*", "reason": reason})
        self.groups.append({"group": group, "obligations": 0, "discharged": 0, "violated": 0, "inconclusive": 1, "time_s": 0})

    def run_group(self, group, fn):
        """run fn(); Unsupported and crashes of the encoder make the group inconclusive, never a violation"""
        try:
            return fn()
        except Unsupported as e:
            self.inconclusive_group(group, "encoder: " + str(e)[:500])
        except Exception as e:  # noqa
            self.inconclusive_group(group, "internal error: %r\n%s" % (e, traceback.format_exc()[-1500:]))
        return None

    # ------------------------------------------------------------------
    def finish(self, level_if_clean="proof", explanation=""):
        known = load_known()
        real = []
        for v in self.violations:
            hit = None
            for (pid, key, text) in known:
                if pid == self.prop and (key == v["key"] or v["key"].startswith(key)):
                    hit = (key, text)
                    break
            if hit:
                self.known_hits.append((hit, v))
            else:
                real.append(v)
        wall = time.time() - self.t0
        level = level_if_clean
        if self.inconclusive or self.n_dis != self.n_obl or self.n_obl == 0:
            level = "other"
        cov = {
            "obligations": self.n_obl,
            "discharged": self.n_dis,
            "checker_cmd": "python3-vt -m checks.run %s %s  (z3 %s via python API; solver timeout per query as configured in the check)" % (self.prop, self.tier, _z3v()),
            "trusted_base": self.trusted,
            "explanation": (explanation + " " if explanation else "") +
                           ("All obligations discharged (unsat)." if level == "proof" else
                            "%d of %d obligations discharged; %d inconclusive (reduced bound, see 'inconclusive'); %d violated." %
                            (self.n_dis, self.n_obl, len(self.inconclusive), len(self.violations))),
            "reachability_witnesses": {"checked": self.n_reach, "reached": self.n_reach_ok},
            "unwinding_assertions": {"checked": self.n_unwind, "discharged": self.n_unwind_ok},
            "functions_encoded": self.functions_encoded,
            "stubs": self.stubs,
            "bounds": self.bounds,
            "queries": dict(self.queries, solver_time_s=round(self.solver_s, 3), symbolic_execution_time_s=round(self.exec_s, 3)),
            "groups": self.groups,
            "samples": self.samples or [{"note": "no obligations produced"}],
            "inconclusive": self.inconclusive[:50],
            "cross_check": {"queries": len(self.cross), "agreeing": sum(1 for x in self.cross if x.get("agree")), "samples": self.cross[:6],
                            "note": "sampled discharged queries exported with to_smt2() and re-run by /usr/bin/z3 4.8.12 and cvc5 (thorough tier only)"},
            "known_findings_hit": [{"key": h[0], "text": h[1]} for h, v in self.known_hits],
            "violations": [{"key": v["key"], "label": v["label"], "model": v["model"], "replay": v["replay"], "reproduced": v["reproduced"]} for v in real],
        }
        ev = {"property_id": self.prop, "tier": self.tier, "seed": self.seed, "level": level, "coverage": cov,
              "assumptions": self.assumptions, "wall_s": round(wall, 2), "violations": len(real)}
        os.makedirs(os.path.join(VERIF, "evidence"), exist_ok=True)
        with open(os.path.join(VERIF, "evidence", self.prop + ".json"), "w") as f:
            json.dump(ev, f, indent=1, default=str)
        for inc in self.inconclusive[:20]:
            print("INCONCLUSIVE property=%s obligation=%s/%s reason=%s" % (self.prop, inc["group"], inc["label"], str(inc["reason"])[:200].replace("\n", " ")))
        for (key, text), v in self.known_hits:
            print("KNOWN-FINDING: property=%s %s (%s)" % (self.prop, text, key))
        for v in real:
            print("VIOLATION property=%s replay=%s" % (self.prop, v["replay"] or "none"))
            print("  obligation: %s  model: %s" % (v["key"], json.dumps(v["model"], default=str)[:400]))
        print("%s %s: %d/%d obligations discharged, %d inconclusive, %d violations, %d known findings, %.1fs" %
              (self.prop, self.tier, self.n_dis, self.n_obl, len(self.inconclusive), len(real), len(self.known_hits), wall))
        return 1 if real else 0


def _z3v():
    import z3
    return z3.get_version_string()


# ---------------------------------------------------------------------- native replay
def registry_test_source(pkgname, harness_files):
    names = []
    for f in harness_files:
        for m in re.finditer(r"^func (Verif\w+)\(\)", open(f).read(), re.M):
            names.append(m.group(1))
    lines = ["package " + pkgname, "", 'import (', '\t"os"', '\t"testing"', ")", "",
             "var vRegistry = map[string]func(){"]
    for n in sorted(set(names)):
        lines.append('\t"%s": %s,' % (n, n))
    lines += ["}", "", "func TestVerifReplay(t *testing.T) {", "\tvLoad()", "\tf := vRegistry[vReplay.Harness]",
              '\tif f == nil { t.Fatalf("unknown harness %q", vReplay.Harness) }',
              "\tskipped, failed := vRunReplay(f)", '\tif skipped { return }',
              '\tif len(failed) > 0 { t.Fatalf("VERIF-REPLAY-FAILED %v", failed) }', '\t_ = os.Stdout', "}"]
    return "\n".join(lines)


def native_replay(build, pkg, harness, params, values, tag="r", cpus=None, timeout=180, extra_env=None):
    """run one harness natively with the given nondet values.
    returns dict(failed labels, notes, skipped, output, ok)"""
    rel = D.PKGDIRS[pkg]
    os.makedirs(os.path.join(VERIF, "replays"), exist_ok=True)
    ov = build.make_overlay(native=True)
    hd = os.path.join(VERIF, "harness", rel if rel else "root")
    hfiles = [os.path.join(hd, f) for f in sorted(os.listdir(hd)) if f.startswith("zz_verif_") and f.endswith(".go") and not f.endswith("_test.go")]
    reg = os.path.join(build.dir, "registry_%s_test.go" % D.PKGNAMES[pkg])
    open(reg, "w").write(registry_test_source(D.PKGNAMES[pkg], hfiles))
    ov[os.path.join(D.REPO, rel, "zz_verif_registry_test.go")] = reg
    ovf = os.path.join(build.dir, "overlay_native.json")
    json.dump({"Replace": ov}, open(ovf, "w"))
    rf = os.path.join(VERIF, "replays", "%s_%s.json" % (build.tag, tag))
    json.dump({"harness": harness.rsplit(".", 1)[-1], "params": {k: v for k, v in params.items() if isinstance(v, int)},
               "values": {k: (str(v) if isinstance(v, int) and not isinstance(v, bool) else v) for k, v in values.items()},
               "pkg": pkg, "entry": harness}, open(rf, "w"), indent=1)
    binpath = os.path.join(build.dir, "replay_%s.test" % D.PKGNAMES[pkg])
    ck = (build.tag, pkg)
    out = ""
    rc = 0
    if ck not in _REPLAY_BIN:
        cmd = ["go", "test", "-vet=off", "-c", "-o", binpath, "-overlay", ovf, "./" + rel if rel else "."]
        if build.tags:
            cmd[2:2] = ["-tags", build.tags]
        r = subprocess.run(cmd, cwd=D.REPO, env=D.GOENV, capture_output=True, text=True)
        _REPLAY_BIN[ck] = (r.returncode == 0, (r.stdout + r.stderr)[-3000:])
    okb, blog = _REPLAY_BIN[ck]
    if not okb:
        out = "build failed\n" + blog
        rc = 2
    else:
        cmd = [binpath, "-test.run", "^TestVerifReplay$", "-test.v", "-test.count=1", "-test.timeout", "%ds" % max(30, timeout - 30)]
        if cpus:
            cmd = ["taskset", "-c", "0-%d" % (cpus - 1)] + cmd
        env = dict(D.GOENV, VERIF_REPLAY=rf)
        if extra_env:
            env.update(extra_env)
        try:
            r = subprocess.run(cmd, cwd=os.path.join(D.REPO, rel), env=env, capture_output=True, text=True, timeout=timeout)
            out = r.stdout + r.stderr
            rc = r.returncode
        except subprocess.TimeoutExpired:
            out = "TIMEOUT"
            rc = -1
    failed = re.findall(r"^VERIF-ASSERT-FAILED (.*)$", out, re.M)
    panics = re.findall(r"^VERIF-PANIC (.*)$", out, re.M)
    notes = {}
    for m in re.finditer(r"^VERIF-NOTE (\S+) (.*)$", out, re.M):
        notes.setdefault(m.group(1), []).append(json.loads(m.group(2)))
    built = "build failed" not in out and "[setup failed]" not in out
    crashed = built and (out == "TIMEOUT" or "test timed out" in out or "fatal error:" in out or re.search(r"^panic: ", out, re.M) is not None)
    if crashed:
        panics = panics + ["process crashed or hung: " + (re.findall(r"^(?:panic|fatal error): .*$", out, re.M) or ["timeout"])[0]]
    return {"failed": failed, "panics": panics, "notes": notes, "skipped": "VERIF-ASSUME-SKIP" in out, "output": out[-4000:],
            "rc": rc, "built": built, "path": rf}


_REPLAY_N = [0]
_REPLAY_BIN = {}


def std_replay(build, pkg, harness, params, match=None, cpus=None):
    """replay callback: reproduced iff the native harness fails an assertion (optionally matching the label) or panics"""
    def cb(rec):
        _REPLAY_N[0] += 1
        lab = rec["label"]
        if lab.startswith(("channel protocol", "deadlock", "join")):
            # schedule-dependent: a few native runs under different scheduler settings
            res = None
            for env in ({"GOMAXPROCS": "1"}, {}, {"GOMAXPROCS": "2"}, {"GOMAXPROCS": "1"}):
                res = native_replay(build, pkg, harness, params, rec.get("model") or {}, tag="%s_%d" % (harness.rsplit('.', 1)[-1], _REPLAY_N[0]), cpus=cpus, extra_env=env, timeout=120)
                if not res["built"]:
                    return None, res["path"]
                if res["failed"] or res["panics"]:
                    return True, res["path"]
            return False, res["path"]
        res = native_replay(build, pkg, harness, params, rec.get("model") or {}, tag="%s_%d" % (harness.rsplit('.', 1)[-1], _REPLAY_N[0]), cpus=cpus)
        if not res["built"]:
            return None, res["path"]
        if lab.startswith("panic:"):
            return (len(res["panics"]) > 0 or any("panic" in f for f in res["failed"])), res["path"]
        rep = any((lab == f or lab in f or f in lab) for f in res["failed"]) or (bool(res["failed"]) and match is None and False)
        if not rep and res["failed"]:
            rep = True   # a different assertion of the same harness failed on this input: still a real failure
        if not rep and res["panics"]:
            rep = True
        return rep, res["path"]
    return cb


# ---------------------------------------------------------------------- parallel groups
def ctx_info(ctx):
    return {"functions_encoded": dict(ctx.functions_encoded), "stubs_used": dict(ctx.stubs_used), "exec_s": getattr(ctx, "exec_s", 0.0)}


class _Info:
    def __init__(self, d):
        self.functions_encoded = d["functions_encoded"]
        self.stubs_used = d["stubs_used"]
        self.exec_s = d["exec_s"]


def _job_wrapper(arg):
    fn, a = arg
    try:
        return ("ok", a, fn(*a))
    except Unsupported as e:
        return ("unsupported", a, str(e)[:800])
    except Exception as e:  # noqa
        return ("error", a, "%r\n%s" % (e, traceback.format_exc()[-2000:]))


def run_jobs(rep, fn, arglist, nproc=None, name=lambda a: str(a), on_result=None):
    """run fn(*args) for each args in a fork pool; fn returns dict(group, recs, info, ...) or list of those"""
    import multiprocessing as mp
    nproc = nproc or int(os.environ.get("VERIF_NPROC", "0")) or min(16, os.cpu_count() or 1)
    results = []
    if nproc <= 1 or len(arglist) <= 1:
        for a in arglist:
            results.append(_job_wrapper((fn, a)))
    else:
        import concurrent.futures as cf
        ctxm = mp.get_context("fork")
        job_timeout = int(os.environ.get("VERIF_JOB_TIMEOUT", "3000"))
        with cf.ProcessPoolExecutor(max_workers=nproc, mp_context=ctxm) as pool:
            futs = [(a, pool.submit(_job_wrapper, (fn, a))) for a in arglist]
            for a, f in futs:
                try:
                    results.append(f.result(timeout=job_timeout))
                except cf.TimeoutError:
                    results.append(("error", a, "job exceeded %ds" % job_timeout))
                except Exception as e:  # noqa  (BrokenProcessPool: a worker died)
                    results.append(("error", a, "worker process failed: %r" % (e,)))
    for st, a, res in results:
        if st != "ok":
            rep.inconclusive_group(name(a), ("encoder: " if st == "unsupported" else "internal error: ") + res)
            continue
        for item in (res if isinstance(res, list) else [res]):
            if on_result:
                on_result(a, item)
            else:
                rep.add(item["group"], item["recs"], _Info(item["info"]), key_prefix=item.get("key_prefix", ""), replay=item.get("replay"))
    return results
