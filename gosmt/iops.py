"""Integer operations for both encodings ('bv' and 'int')."""
import z3
from .values import Unsupported, is_term, b_and, b_or, b_not

INT_TYPES = {
    "int": (64, True), "int8": (8, True), "int16": (16, True), "int32": (32, True), "int64": (64, True),
    "uint": (64, False), "uint8": (8, False), "uint16": (16, False), "uint32": (32, False),
    "uint64": (64, False), "uintptr": (64, False), "byte": (8, False), "rune": (32, True),
    "untyped int": (64, True), "untyped rune": (32, True),
}


def norm(v, w, signed):
    v &= (1 << w) - 1
    if signed and v >> (w - 1):
        v -= 1 << w
    return v


class IntOps:
    def __init__(self, ctx):
        self.ctx = ctx

    # ---------------------------------------------------------------- helpers
    def mode(self):
        return self.ctx.intmode

    def const(self, v, w, signed):
        return norm(v, w, signed)

    def to_term(self, v, w, signed):
        if is_term(v):
            return v
        if self.mode() == "bv":
            return z3.BitVecVal(v, w)
        return z3.IntVal(v)

    def fresh(self, name, w, signed):
        n = self.ctx.fresh_name(name)
        if self.mode() == "bv":
            return z3.BitVec(n, w)
        t = z3.Int(n)
        if signed:
            self.ctx.add_fact(z3.And(t >= -(1 << (w - 1)), t < (1 << (w - 1))))
        else:
            self.ctx.add_fact(z3.And(t >= 0, t < (1 << w)))
        return t

    def wrap_int(self, expr, w, signed, why):
        """Int mode: bring an exact integer expression back into the machine range."""
        if not is_term(expr):
            return norm(expr, w, signed)
        if signed:
            # signed overflow is an obligation (proved, never assumed)
            self.ctx.auto_obligation("no-signed-overflow:" + why,
                                     z3.Or(expr < -(1 << (w - 1)), expr >= (1 << (w - 1))))
            return expr
        mk = ("wrap", expr.get_id(), w)
        hit = self.ctx.memo.get(mk)
        if hit is not None:
            return hit[0]
        v = z3.Int(self.ctx.fresh_name("wr"))
        k = z3.Int(self.ctx.fresh_name("wk"))
        self.ctx.memo[mk] = (v, expr)
        self.ctx.add_fact(z3.And(v >= 0, v < (1 << w), expr == v + (1 << w) * k))
        return v

    # ---------------------------------------------------------------- binop
    def binop(self, op, a, b, w, signed, pos=""):
        ca, cb = not is_term(a), not is_term(b)
        if ca and cb:
            return self._conc(op, a, b, w, signed)
        if self.mode() == "bv":
            return self._bv(op, a, b, w, signed)
        return self._int(op, a, b, w, signed, pos)

    def _conc(self, op, a, b, w, signed):
        if op == "+":
            return norm(a + b, w, signed)
        if op == "-":
            return norm(a - b, w, signed)
        if op == "*":
            return norm(a * b, w, signed)
        if op == "/":
            if b == 0:
                raise ZeroDivisionError
            q = abs(a) // abs(b)
            if (a < 0) != (b < 0):
                q = -q
            return norm(q, w, signed)
        if op == "%":
            if b == 0:
                raise ZeroDivisionError
            r = abs(a) % abs(b)
            if a < 0:
                r = -r
            return norm(r, w, signed)
        if op == "&":
            return norm(a & b, w, signed)
        if op == "|":
            return norm(a | b, w, signed)
        if op == "^":
            return norm(a ^ b, w, signed)
        if op == "&^":
            return norm(a & ~b, w, signed)
        if op == "<<":
            if b >= w:
                return 0
            return norm(a << b, w, signed)
        if op == ">>":
            if b >= w:
                return -1 if (signed and a < 0) else 0
            return norm(a >> b, w, signed)
        if op == "==":
            return a == b
        if op == "!=":
            return a != b
        if op == "<":
            return a < b
        if op == "<=":
            return a <= b
        if op == ">":
            return a > b
        if op == ">=":
            return a >= b
        raise Unsupported("binop " + op)

    def _bv(self, op, a, b, w, signed):
        A = a if is_term(a) else z3.BitVecVal(a, w)
        if op in ("<<", ">>"):
            # shift count may have another width
            if is_term(b):
                bw = b.size()
                if bw < w:
                    B = z3.ZeroExt(w - bw, b)
                elif bw > w:
                    # count >= w gives 0 / sign fill; compare on the wide value
                    big = z3.UGE(b, z3.BitVecVal(w, bw))
                    B = z3.Extract(w - 1, 0, b)
                    if op == "<<":
                        return z3.If(big, z3.BitVecVal(0, w), A << B)
                    sh = (A >> B) if signed else z3.LShR(A, B)
                    fill = z3.If(A < 0, z3.BitVecVal(-1, w), z3.BitVecVal(0, w)) if signed else z3.BitVecVal(0, w)
                    return z3.If(big, fill, sh)
                else:
                    B = b
            else:
                if b >= w:
                    if op == "<<" or not signed:
                        return 0
                    return z3.If(A < 0, z3.BitVecVal(-1, w), z3.BitVecVal(0, w))
                B = z3.BitVecVal(b, w)
            if op == "<<":
                return A << B
            return (A >> B) if signed else z3.LShR(A, B)
        B = b if is_term(b) else z3.BitVecVal(b, w)
        if op == "+":
            return A + B
        if op == "-":
            return A - B
        if op == "*":
            return A * B
        if op == "/":
            return (A / B) if signed else z3.UDiv(A, B)
        if op == "%":
            return z3.SRem(A, B) if signed else z3.URem(A, B)
        if op == "&":
            return A & B
        if op == "|":
            return A | B
        if op == "^":
            return A ^ B
        if op == "&^":
            return A & ~B
        if op == "==":
            return A == B
        if op == "!=":
            return A != B
        if signed:
            return {"<": A < B, "<=": A <= B, ">": A > B, ">=": A >= B}[op]
        return {"<": z3.ULT(A, B), "<=": z3.ULE(A, B), ">": z3.UGT(A, B), ">=": z3.UGE(A, B)}[op]

    def _int(self, op, a, b, w, signed, pos):
        A = a if is_term(a) else z3.IntVal(a)
        B = b if is_term(b) else z3.IntVal(b)
        if op == "==":
            return A == B
        if op == "!=":
            return A != B
        if op == "<":
            return A < B
        if op == "<=":
            return A <= B
        if op == ">":
            return A > B
        if op == ">=":
            return A >= B
        if op == "+":
            return self.wrap_int(A + B, w, signed, "+@" + pos)
        if op == "-":
            return self.wrap_int(A - B, w, signed, "-@" + pos)
        if op == "*":
            if is_term(a) and is_term(b):
                if signed:
                    # symbolic * symbolic: keep exact product (non-linear); obligation on overflow
                    return self.wrap_int(A * B, w, signed, "*@" + pos)
                raise Unsupported("int-mode symbolic*symbolic unsigned multiplication")
            r = self.wrap_int(A * B, w, signed, "*@" + pos)
            if not signed:
                # constant-chain folding (DESIGN 3.1): remember v = (x*c) mod 2^w
                x, c = (a, b) if is_term(a) else (b, a)
                if r.get_id() not in self.ctx.mulchain:
                    self.ctx.mulwit.append(r)
                self.ctx.mulchain[r.get_id()] = (x, c, w)
                ch = self.ctx.mulchain.get(x.get_id())
                if ch is not None and ch[2] == w:
                    x0, c0, _ = ch
                    k = z3.Int(self.ctx.fresh_name("cf"))
                    self.ctx.add_fact(x0 * ((c0 * c) % (1 << w)) == r + (1 << w) * k)
            return r
        if op == "/":
            if is_term(b):
                raise Unsupported("int-mode division by symbolic value")
            if b == 0:
                raise ZeroDivisionError
            if b > 0 and not signed:
                return A / B
            # Go truncates toward zero; z3 Int div floors (for positive divisor)
            if b > 0:
                return z3.If(A >= 0, A / B, -((-A) / B))
            raise Unsupported("int-mode division by negative constant")
        if op == "%":
            if is_term(b) or b <= 0:
                raise Unsupported("int-mode modulo")
            if not signed:
                return A % B
            return z3.If(A >= 0, A % B, -((-A) % B))
        if op == ">>" and not is_term(b) and not signed:
            if b >= w:
                return 0
            return A / (1 << b)
        if op == "<<" and not is_term(b) and not signed:
            if b >= w:
                return 0
            return self.wrap_int(A * (1 << b), w, signed, "<<@" + pos)
        if op == "&" and not signed and not is_term(b) and (b & (b + 1)) == 0:
            return A % (b + 1)
        if op == "&" and not signed and not is_term(a) and (a & (a + 1)) == 0:
            return B % (a + 1)
        if op in ("|", "&", "^") and not signed:
            # sound abstraction by true axioms (enough for zero tests such as IsZero)
            r = z3.Int(self.ctx.fresh_name("bit" + {"|": "or", "&": "and", "^": "xor"}[op]))
            if op == "|":
                self.ctx.add_fact(z3.And(r >= A, r >= B, r <= A + B, r < (1 << w)))
            elif op == "&":
                self.ctx.add_fact(z3.And(r >= 0, r <= A, r <= B))
            else:
                self.ctx.add_fact(z3.And(r >= A - B, r >= B - A, r <= A + B, r < (1 << w)))
            return r
        raise Unsupported("int-mode binop %s" % op)

    # ---------------------------------------------------------------- unop / convert
    def neg(self, a, w, signed):
        if not is_term(a):
            return norm(-a, w, signed)
        if self.mode() == "bv":
            return -a
        return self.wrap_int(-a, w, signed, "neg")

    def bitnot(self, a, w, signed):
        if not is_term(a):
            return norm(~a, w, signed)
        if self.mode() == "bv":
            return ~a
        if not signed:
            return (1 << w) - 1 - a
        return -a - 1

    def convert(self, a, fw, fsigned, tw, tsigned):
        if not is_term(a):
            return norm(a, tw, tsigned)
        if self.mode() == "bv":
            if tw == fw:
                return a
            if tw < fw:
                return z3.Extract(tw - 1, 0, a)
            return z3.SignExt(tw - fw, a) if fsigned else z3.ZeroExt(tw - fw, a)
        # int mode
        if tw >= fw and (fsigned == tsigned or (not fsigned and tw > fw)):
            return a
        if tw == fw and fsigned != tsigned:
            # reinterpretation: exact when value is non-negative and below 2^(w-1); make it an obligation
            self.ctx.auto_obligation("int-mode sign reinterpretation out of range",
                                     z3.Or(a < 0, a >= (1 << (tw - 1))))
            return a
        if not tsigned:
            if not fsigned:
                return a % (1 << tw)
            return a % (1 << tw)
        raise Unsupported("int-mode narrowing signed conversion")

    def ite(self, c, a, b, w, signed):
        if c is True:
            return a
        if c is False:
            return b
        if not is_term(a) and not is_term(b) and a == b:
            return a
        return z3.If(c, self.to_term(a, w, signed), self.to_term(b, w, signed))
