"""SSA symbolic executor: merging at post-dominators, single store with undo logs."""
import sys
import time
import z3
from .values import (Unsupported, PathDead, Ptr, Slice, Iface, Closure, Builtin, Chan, GoMap, MapIter, Guarded,
                     is_term, is_conc_int, b_and, b_or, b_not, b_term, simp_bool, cases_of)
from .iops import IntOps, norm
from .program import Program, EXIT

MISSING = object()
PHIS_DONE = object()


class Obligation:
    def __init__(self, label, cond, kind, pos=""):
        self.label = label
        self.cond = cond        # formula that must be UNSAT (violation condition incl. path guard)
        self.kind = kind        # assert | panic | unwind | auto | reach
        self.pos = pos
        self.status = None
        self.time = 0.0
        self.model = None


class Ctx:
    """per-run context: solver facts, obligations, naming"""

    def __init__(self, prog, intmode="bv", unwind=64, prune=True):
        self.prog = prog
        self.intmode = intmode
        self.unwind = unwind
        self.prune = prune
        self.facts = []
        self.solver = z3.Solver()
        self.solver.set("timeout", 2000)
        self.obligations = []
        self.names = {}
        self.vars = {}          # harness variable name -> term
        self.params = {}        # vParam values
        self.mulchain = {}
        self.mulwit = []
        self.memo = {}
        self.cuts = {}
        self.loop_cuts = {}
        self.cuts_fired = set()
        self.products = {}
        self.product_terms = {}
        self.notes = []
        self.reached = {}
        self.stats = {"instrs": 0, "forks": 0, "feas_checks": 0, "calls": 0}
        self.functions_encoded = {}
        self.stubs_used = {}
        self.panic_is_obligation = True
        self.lemma_candidates = []   # (label, term) dropped results that may be proven == 0

    def fresh_name(self, base):
        n = self.names.get(base, 0)
        self.names[base] = n + 1
        return "%s!%d" % (base, n)

    def add_fact(self, f):
        self.facts.append(f)
        self.solver.add(f)

    def auto_obligation(self, label, cond):
        g = self.cur_guard()
        self.obligations.append(Obligation(label, b_and(g, cond), "auto"))

    def cur_guard(self):
        return self.ex.guard if getattr(self, "ex", None) else True

    def feasible(self, cond):
        if cond is True:
            return True
        if cond is False:
            return False
        self.stats["feas_checks"] += 1
        self.solver.push()
        self.solver.add(cond)
        r = self.solver.check()
        self.solver.pop()
        return r != z3.unsat


class Frame:
    __slots__ = ("id", "fn", "fname", "defers", "visits")

    def __init__(self, id_, fn, fname):
        self.id = id_
        self.fn = fn
        self.fname = fname
        self.defers = []
        self.visits = {}


class Executor:
    def __init__(self, ctx):
        self.ctx = ctx
        ctx.ex = self
        self.prog = ctx.prog
        self.iops = IntOps(ctx)
        self.store = {}
        self.logs = []
        self.guard = True
        self.partial = False
        self.next_obj = 1
        self.next_frame = 1
        self.objs = {}           # objid -> dict(tid, n, label, lazy)
        self.intrinsics = {}
        self.global_objs = {}
        self.global_init = {}    # name -> python value tree from native dump
        self.global_override = {}
        self.global_zero = set()
        self.task = 0            # current goroutine id (0 = main)
        self.next_task = 1
        self.access_log = None   # list when enabled
        self.events = []
        self.protected = []      # (label, objid, off, n, snapshot)
        self.depth = 0

    # ------------------------------------------------------------------ store
    def write(self, key, val):
        if self.logs:
            lg = self.logs[-1]
            if key not in lg:
                lg[key] = self.store.get(key, MISSING)
        self.store[key] = val

    def read(self, key):
        return self.store[key]

    def push_log(self):
        self.logs.append({})

    def pop_collect_rollback(self):
        lg = self.logs.pop()
        st = self.store
        W = {}
        for k, old in lg.items():
            W[k] = st.get(k, MISSING)
            if old is MISSING:
                st.pop(k, None)
            else:
                st[k] = old
        return W

    # ------------------------------------------------------------------ values
    def key_type(self, key):
        if key[0] == "R":
            return key[3]
        if isinstance(key[0], int):
            info = self.objs.get(key[0])
            if info is not None:
                lay = info["lay"]
                if lay is not None and key[1] < len(lay):
                    return lay[key[1]]
        return None

    def vite(self, c, a, b, tid=None):
        if a is b:
            return a
        if c is True:
            return a
        if c is False:
            return b
        if a is MISSING:
            return b
        if b is MISSING:
            return a
        def boolish(v):
            return isinstance(v, bool) or (is_term(v) and z3.is_bool(v))
        if boolish(a) and boolish(b):
            if isinstance(a, bool) and isinstance(b, bool) and a == b:
                return a
            if a is True and b is False:
                return c
            if a is False and b is True:
                return b_not(c)
            return z3.If(c, b_term(a), b_term(b))
        if (is_conc_int(a) or (is_term(a) and not z3.is_bool(a))) and (is_conc_int(b) or (is_term(b) and not z3.is_bool(b))):
            if is_conc_int(a) and is_conc_int(b):
                if a == b:
                    return a
                if self.ctx.intmode == "int":
                    return z3.If(c, z3.IntVal(a), z3.IntVal(b))
                w = None
                if tid is not None:
                    ii = self.prog.int_info(tid)
                    if ii:
                        w = ii[0]
                if w is None:
                    raise Unsupported("ite of concrete ints without known width")
                return z3.If(c, z3.BitVecVal(a, w), z3.BitVecVal(b, w))
            if is_term(a):
                if is_conc_int(b):
                    b = z3.BitVecVal(b, a.size()) if z3.is_bv(a) else z3.IntVal(b)
            else:
                a = z3.BitVecVal(a, b.size()) if z3.is_bv(b) else z3.IntVal(a)
            if a.eq(b):
                return a
            return z3.If(c, a, b)
        sa = isinstance(a, tuple) and len(a) > 0 and isinstance(a[0], str)
        sb = isinstance(b, tuple) and len(b) > 0 and isinstance(b[0], str)
        if sa or sb:
            # structural byte cells (iohash): atomic
            from .iohash import cell_equal
            if sa and sb and (a is b or (a[0] != "ic" and b[0] != "ic" and a[0] == b[0] and a[-1] == b[-1] and a[1] is b[1])):
                return a
            return ("ic", c, a, b)
        if isinstance(a, tuple) and isinstance(b, tuple) and len(a) == len(b):
            lt = None
            if tid is not None and not isinstance(tid, list):
                try:
                    td = self.prog.types.get(tid, {})
                    lt = self.prog.layout(tid) if td.get("kind") != "tuple" else list(td.get("elems", []))
                except Exception:
                    lt = None
                if lt is not None and len(lt) != len(a):
                    lt = None
            return tuple(self.vite(c, x, y, lt[i] if lt else None) for i, (x, y) in enumerate(zip(a, b)))
        da = getattr(a, "dom", None)
        db = getattr(b, "dom", None)
        if da is not None and db is not None:
            return da.ite(c, a, b)
        if isinstance(a, Ptr) and isinstance(b, Ptr) and a.key() == b.key():
            return a
        if isinstance(a, Slice) and isinstance(b, Slice):
            if a.ptr is None and b.ptr is None and a.len == 0 and b.len == 0:
                return a
            if (a.ptr is not None and b.ptr is not None and a.ptr.key() == b.ptr.key()):
                return Slice(a.ptr, self.vite(c, a.len, b.len, "int"), self.vite(c, a.cap, b.cap, "int"), a.elem)
        if a is None and b is None:
            return None
        if not is_term(a) and not is_term(b) and not isinstance(a, (Guarded, tuple)) and not isinstance(b, (Guarded, tuple)) and a == b:
            return a
        return Guarded([(c, a), (b_not(c), b)])

    def to_cells(self, val, tid):
        if self.prog.is_agg(tid):
            if not isinstance(val, tuple):
                raise Unsupported("aggregate value expected for %s got %r" % (tid, type(val)))
            return list(val)
        return [val]

    def from_cells(self, cells, tid):
        if self.prog.is_agg(tid):
            return tuple(cells)
        return cells[0]

    def zero_leaf(self, tid):
        p = self.prog
        k = p.kind(tid)
        if k == "opaque":
            return p.opaque[p.unalias(tid)].zero(tid)
        if k == "int":
            return 0
        if k == "bool":
            return False
        if k == "string":
            return ""
        if k == "float":
            return 0.0
        if k == "slice":
            return Slice(None, 0, 0, p.under(tid)["elem"])
        return None   # pointer, interface, func, map, chan

    def zero_value(self, tid):
        lay = self.prog.layout(tid)
        cells = [self.zero_leaf(t) for t in lay]
        return self.from_cells(cells, tid)

    # ------------------------------------------------------------------ memory
    def alloc(self, tid, label="", cells=None, count=None):
        """allocate an object holding one value of type tid (or `count` of them)"""
        lay = self.prog.layout(tid)
        if count is not None:
            lay = lay * count
        oid = self.next_obj
        self.next_obj += 1
        self.objs[oid] = {"tid": tid, "n": len(lay), "lay": lay, "label": label, "lazy": None, "count": count}
        if cells is None:
            zl = {}
            for i, t in enumerate(lay):
                z = zl.get(t, MISSING)
                if z is MISSING:
                    z = self.zero_leaf(t)
                    zl[t] = z
                self.write((oid, i), z)
        else:
            assert len(cells) == len(lay), (len(cells), len(lay), tid)
            for i, v in enumerate(cells):
                self.write((oid, i), v)
        return Ptr(oid, 0, (), tid)

    def alloc_lazy(self, tid, reader, label="", n=0):
        oid = self.next_obj
        self.next_obj += 1
        self.objs[oid] = {"tid": tid, "n": n, "lay": None, "label": label, "lazy": reader, "count": None}
        return Ptr(oid, 0, (), tid)

    def sym_index_cases(self, ptr):
        """enumerate the concrete offsets a pointer with symbolic part may denote: [(cond, off)]"""
        outs = [(True, ptr.off)]
        for term, stride, count in ptr.sym:
            cs = self.int_cases(term, count)
            new = []
            for g, off in outs:
                for cg, iv in cs:
                    gg = b_and(g, cg)
                    if gg is not False:
                        new.append((gg, off + iv * stride))
            outs = new
        return outs

    def int_cases(self, term, count):
        """possible values of an index term: ite-tree leaves if all constant, else 0..count-1"""
        leaves = []

        def walk(t, g):
            if len(leaves) > 64:
                return False
            if not is_term(t):
                leaves.append((g, t))
                return True
            if z3.is_app_of(t, z3.Z3_OP_ITE):
                c = t.arg(0)
                return walk(t.arg(1), b_and(g, c)) and walk(t.arg(2), b_and(g, b_not(c)))
            if z3.is_bv_value(t) or z3.is_int_value(t):
                leaves.append((g, t.as_long()))
                return True
            if z3.is_app_of(t, z3.Z3_OP_ZERO_EXT) or z3.is_app_of(t, z3.Z3_OP_SIGN_EXT):
                return walk(t.arg(0), g)
            return False

        if walk(term, True) and len(leaves) <= 64:
            merged = {}
            for g, v in leaves:
                merged[v] = b_or(merged.get(v, False), g)
            return [(g, v) for v, g in merged.items() if 0 <= v < count]
        if count > 4096:
            raise Unsupported("symbolic index into array of %d" % count)
        if z3.is_bv(term):
            return [(term == z3.BitVecVal(i, term.size()), i) for i in range(count)]
        return [(term == i, i) for i in range(count)]

    def ptr_cases(self, p):
        """[(guard, objid, off)] for pointer value (possibly Guarded / symbolic offset)"""
        out = []
        for g, q in cases_of(p):
            if q is None:
                out.append((g, None, None))
                continue
            if not isinstance(q, Ptr):
                raise Unsupported("pointer expected, got %r" % (q,))
            if q.sym:
                if self.objs[q.obj]["lazy"] is not None:
                    out.append((g, q.obj, q))
                    continue
                for g2, off in self.sym_index_cases(q):
                    out.append((b_and(g, g2), q.obj, off))
            else:
                out.append((g, q.obj, q.off))
        return out

    def nil_deref(self, g, what):
        self.panic_if(g, "nil pointer dereference: " + what)

    def load(self, p, tid):
        n = self.prog.ncells(tid)
        cs = self.ptr_cases(p)
        res = None
        lay = self.prog.layout(tid)
        live = []
        for g, oid, off in cs:
            if oid is None:
                self.nil_deref(g, "load")
                continue
            live.append((g, oid, off))
        if not live:
            raise PathDead()
        for g, oid, off in reversed(live):
            info = self.objs[oid]
            if info["lazy"] is not None:
                cells = info["lazy"](self, off if isinstance(off, Ptr) else Ptr(oid, off), tid)
            else:
                if off + n > info["n"]:
                    # the run-time bounds check (an obligation already recorded) excludes this case: infeasible
                    continue
                cells = [self.store[(oid, off + i)] for i in range(n)]
            if self.access_log is not None:
                self.access_log.append((self.task, self.guard, oid, off, n, False, len(self.events)))
            if res is None:
                res = cells
            else:
                res = [self.vite(g, c1, c0, lay[i]) for i, (c1, c0) in enumerate(zip(cells, res))]
        if res is None:
            raise PathDead()
        return self.from_cells(res, tid)

    def store_to(self, p, val, tid):
        cells = self.to_cells(val, tid)
        lay = self.prog.layout(tid)
        for g, oid, off in self.ptr_cases(p):
            if oid is None:
                self.nil_deref(g, "store")
                continue
            info = self.objs[oid]
            if info["lazy"] is not None:
                self.ctx.obligations.append(Obligation("write to specification table " + info["label"], b_and(self.guard, g), "assert"))
                continue
            if off + len(cells) > info["n"]:
                continue
            if self.access_log is not None:
                self.access_log.append((self.task, b_and(self.guard, g), oid, off, len(cells), True, len(self.events)))
            for i, c in enumerate(cells):
                k = (oid, off + i)
                if g is True:
                    self.write(k, c)
                else:
                    self.write(k, self.vite(g, c, self.store[k], lay[i]))

    # ------------------------------------------------------------------ panics / assumptions
    def panic_if(self, cond, msg, pos=""):
        """cond: condition under which a run-time panic happens here"""
        if cond is False:
            return
        if self.ctx.panic_is_obligation:
            self.ctx.obligations.append(Obligation("panic: " + msg, b_and(self.guard, cond), "panic", pos))
        if cond is True:
            raise PathDead()
        self.guard = b_and(self.guard, b_not(cond))
        self.partial = True

    def assume(self, cond):
        if cond is True:
            return
        if cond is False:
            raise PathDead()
        self.guard = b_and(self.guard, cond)
        self.partial = True

    def unique_value(self, term):
        """the single value a term can take under the current path condition (None if not unique / unknown)"""
        s = self.ctx.solver
        s.push()
        try:
            if self.guard is not True:
                s.add(b_term(self.guard))
            r0 = s.check()
            if r0 == z3.unsat:
                raise PathDead()
            if r0 != z3.sat:
                return None
            v = s.model().eval(term, model_completion=True)
            s.add(term != v)
            if s.check() != z3.unsat:
                return None
            return v.as_long() if not z3.is_bool(v) else z3.is_true(v)
        except PathDead:
            raise
        except Exception:
            return None
        finally:
            s.pop()

    # ------------------------------------------------------------------ fork / merge
    def fork(self, cond, run_then, run_else):
        self.ctx.stats["forks"] += 1
        g0 = self.guard
        p0 = self.partial
        res = []
        for c, fn in ((cond, run_then), (b_not(cond), run_else)):
            self.push_log()
            self.guard = b_and(g0, c)
            self.partial = False
            alive = True
            try:
                fn()
            except PathDead:
                alive = False
            W = self.pop_collect_rollback()
            res.append((alive, W, self.guard, self.partial))
        (a1, W1, g1, p1), (a2, W2, g2, p2) = res
        if not a1 and not a2:
            self.guard = g0
            raise PathDead()
        if a1 and not a2:
            for k, v in W1.items():
                if v is not MISSING:
                    self.write(k, v)
            self.guard = g1
            self.partial = True
            return
        if a2 and not a1:
            for k, v in W2.items():
                if v is not MISSING:
                    self.write(k, v)
            self.guard = g2
            self.partial = True
            return
        st = self.store
        for k, v1 in W1.items():
            v2 = W2.get(k, MISSING)
            if v2 is MISSING:
                v2 = st.get(k, MISSING)
            if v1 is MISSING:
                v1 = st.get(k, MISSING)
            if v1 is v2:
                if v1 is not MISSING:
                    self.write(k, v1)
                continue
            self.write(k, self.vite(cond, v1, v2, self.key_type(k)))
        for k, v2 in W2.items():
            if k in W1:
                continue
            v1 = st.get(k, MISSING)
            if v1 is v2 or v2 is MISSING:
                continue
            self.write(k, self.vite(cond, v1, v2, self.key_type(k)))
        if p1 or p2:
            self.guard = b_or(g1, g2)
            self.partial = True
        else:
            self.guard = g0
            self.partial = p0

    # ------------------------------------------------------------------ operands
    def val(self, fr, v):
        if isinstance(v, str):
            return self.store[("R", fr.id, v, fr.fn["_regtype"].get(v))]
        if v is None:
            return None
        k = v["k"]
        if k == "const":
            return self.const(v)
        if k == "global":
            return self.global_ptr(v["n"])
        if k == "func":
            return Closure(v["n"], ())
        if k == "builtin":
            return Builtin(v["n"])
        raise Unsupported("operand " + str(v))

    def setreg(self, fr, name, val):
        n = "r:" + name
        self.write(("R", fr.id, n, fr.fn["_regtype"].get(n)), val)

    def const(self, c):
        tid = c["t"]
        v = c["v"]
        p = self.prog
        if v is None:
            k = p.kind(tid)
            if k in ("pointer", "interface", "func", "map", "chan", "nil"):
                return None
            return self.zero_value(tid)
        if c.get("int"):
            ii = p.int_info(tid)
            iv = int(v)
            if ii is None:
                if p.kind(tid) == "float":
                    return float(iv)
                return iv
            return norm(iv, ii[0], ii[1])
        if c.get("str"):
            return v
        if c.get("float"):
            if "/" in v:
                a, b = v.split("/")
                return int(a) / int(b)
            return float(v)
        if isinstance(v, bool):
            return v
        raise Unsupported("constant " + str(c))

    def global_ptr(self, name):
        ptr = self.global_objs.get(name)
        if ptr is not None:
            return ptr
        g = self.prog.globals[name]
        tid = self.prog.under(g["type"])["elem"]
        if name in self.global_override:
            ptr = self.global_override[name](self, tid)
        elif name in self.global_init:
            from .globals_init import build_global
            # globals are created outside any undo log: temporarily detach logs
            logs, self.logs = self.logs, []
            try:
                cells = build_global(self, self.global_init[name], tid)
                ptr = self.alloc(tid, label="global " + name, cells=cells)
            finally:
                self.logs = logs
        elif name in self.global_zero or self.prog.ncells(tid) == 0:
            logs, self.logs = self.logs, []
            try:
                ptr = self.alloc(tid, label="global " + name)
            finally:
                self.logs = logs
        else:
            raise Unsupported("global %s has no initial value (native dump missing)" % name)
        self.global_objs[name] = ptr
        return ptr

    # ------------------------------------------------------------------ calls
    def call_function(self, fname, args, ins=None, closure_bindings=()):
        intr = self.intrinsics.get(fname)
        if intr is not None:
            self.ctx.stubs_used[fname] = self.ctx.stubs_used.get(fname, 0) + 1
            return intr(self, args, ins)
        f = self.prog.funcs.get(fname)
        if f is None or "blocks" not in f:
            raise Unsupported("call to external function without intrinsic: " + fname)
        self.ctx.stats["calls"] += 1
        if fname not in self.ctx.functions_encoded:
            self.ctx.functions_encoded[fname] = sum(len(b["instrs"]) for b in f["blocks"])
        fr = Frame(self.next_frame, f, fname)
        self.next_frame += 1
        rt = f["_regtype"]
        for p, a in zip(f["params"], args):
            n = "p:" + p["name"]
            self.write(("R", fr.id, n, rt.get(n)), a)
        for p, a in zip(f["freevars"], closure_bindings):
            n = "f:" + p["name"]
            self.write(("R", fr.id, n, rt.get(n)), a)
        self.depth += 1
        try:
            self.run_region(fr, 0, None, EXIT)
        finally:
            self.depth -= 1
        ret = self.store.get(("R", fr.id, "$ret", f.get("results")), ())
        return ret

    def call_value(self, fv, args, ins=None):
        """call a function value (Closure, possibly Guarded)"""
        cs = cases_of(fv)
        if self.task != 0:
            from .conc import event
            event(self, "callv")
        if len(cs) == 1:
            c = cs[0][1]
            if c is None:
                self.panic_if(True, "call of nil function")
            return self.call_function(c.fn, args, ins, c.bindings)
        raise Unsupported("call through guarded function value")

    def wrap_results(self, ret, ins):
        """function results tuple -> register value"""
        rt = ins.get("type")
        d = self.prog.types.get(rt)
        if d is not None and d["kind"] == "tuple":
            if len(d["elems"]) == 0:
                return None
            return tuple(ret)
        if isinstance(ret, tuple) and len(ret) == 1:
            return ret[0]
        if ret == ():
            return None
        return ret

    def do_call(self, fr, ins, is_go=False):
        call = ins["call"]
        mode = call["mode"]
        args = [self.val(fr, a) for a in call["args"]]
        if mode == "builtin":
            from .builtins import call_builtin
            return call_builtin(self, fr, call["fn"], args, ins, call)
        if mode == "static":
            bindings = ()
            if "closure" in call:
                bindings = self.val(fr, call["closure"]).bindings
            ret = self.call_function(call["fn"], args, ins, bindings)
            return self.wrap_results(ret, ins)
        if mode == "dynamic":
            fv = self.val(fr, call["value"])
            ret = self.call_value(fv, args, ins)
            return self.wrap_results(ret, ins)
        if mode == "invoke":
            recv = self.val(fr, call["recv"])
            cs = cases_of(recv)
            if len(cs) != 1:
                raise Unsupported("invoke on guarded interface value")
            iv = cs[0][1]
            if iv is None:
                self.panic_if(True, "invoke on nil interface")
            h = getattr(iv.val, "invoke", None) if not isinstance(iv, Iface) else None
            if not isinstance(iv, Iface):
                raise Unsupported("invoke on non-interface value %r" % (iv,))
            hv = getattr(iv.val, "invoke", None)
            if hv is not None:
                return hv(self, call["method"], args, ins)
            mt = self.prog.itabs.get(iv.tid, {})
            fn = mt.get(call["method"])
            if fn is None:
                raise Unsupported("no method %s for dynamic type %s" % (call["method"], iv.tid))
            ret = self.call_function(fn, [iv.val] + args, ins)
            return self.wrap_results(ret, ins)
        raise Unsupported("call mode " + mode)

    # ------------------------------------------------------------------ main loop
    def do_phis(self, fr, blk, pred):
        b = fr.fn["blocks"][blk]
        n = b["_nphi"]
        if n == 0:
            return
        idx = b["preds"].index(pred)
        vals = [self.val(fr, b["instrs"][i]["edges"][idx]) for i in range(n)]
        for i in range(n):
            self.setreg(fr, b["instrs"][i]["name"], vals[i])

    def run_region(self, fr, blk, pred, stop, phis_done=False):
        from .instrs import step
        fn = fr.fn
        blocks = fn["blocks"]
        cfg = self.prog.cfg(fr.fname)
        ctx = self.ctx
        while True:
            if blk == stop:
                return PHIS_DONE if phis_done else pred
            b = blocks[blk]
            if not phis_done and pred is not None:
                self.do_phis(fr, blk, pred)
            phis_done = False
            if ctx.loop_cuts:
                lc = ctx.loop_cuts.get(fr.fname)
                if lc is not None and blk in lc:
                    # loop-invariant cut (Floyd/Hoare): every arrival at the header asserts the invariant; the first
                    # arrival on a path continues from an arbitrary state satisfying it, later arrivals end the path
                    k = ("LC", fr.id, blk)
                    first = not self.store.get(k, False)
                    self.write(k, True)
                    lc[blk](self, fr, blk, first)
                    if not first:
                        raise PathDead()
            instrs = b["instrs"]
            for i in range(b["_nphi"], len(instrs) - 1):
                step(self, fr, instrs[i])
            term = instrs[-1]
            ctx.stats["instrs"] += len(instrs)
            op = term["op"]
            if op == "Jump":
                pred, blk = blk, b["succs"][0]
                continue
            if op == "Return":
                vals = tuple(self.val(fr, r) for r in term["results"])
                self.write(("R", fr.id, "$ret", fn.get("results")), vals)
                if self.store.get(("D", fr.id)):
                    raise Unsupported("return with pending defers")
                if stop != EXIT:
                    raise Unsupported("internal: return inside region not ending at exit")
                return blk
            if op == "Panic":
                self.panic_if(True, "explicit panic in " + fr.fname, term.get("pos", ""))
            if op == "If":
                cond = self.val(fr, term["cond"])
                if isinstance(cond, bool):
                    pred, blk = blk, b["succs"][0 if cond else 1]
                    continue
                cond = simp_bool(cond)
                if isinstance(cond, bool):
                    pred, blk = blk, b["succs"][0 if cond else 1]
                    continue
                cut = ctx.cuts.get(fr.fname) if ctx.cuts else None
                if cut is not None and fr.id not in ctx.cuts_fired:
                    ctx.cuts_fired.add(fr.id)
                    cut(self, fr)
                    # the cut may havoc memory: re-evaluate what the block computed after its last store
                    last = max([k for k, x in enumerate(instrs) if x["op"] == "Store"] + [b["_nphi"] - 1])
                    for k in range(last + 1, len(instrs) - 1):
                        step(self, fr, instrs[k])
                    cond = self.val(fr, term["cond"])
                    if isinstance(cond, bool):
                        pred, blk = blk, b["succs"][0 if cond else 1]
                        continue
                    cond = simp_bool(cond)
                    if isinstance(cond, bool):
                        pred, blk = blk, b["succs"][0 if cond else 1]
                        continue
                s0, s1 = b["succs"]
                J = cfg["ipdom"].get(blk)
                incyc = blk in cfg["incycle"]
                if incyc:
                    cnt = fr.visits.get(blk, 0) + 1
                    fr.visits[blk] = cnt
                    if ctx.prune:
                        f0 = ctx.feasible(b_and(self.guard, cond))
                        f1 = ctx.feasible(b_and(self.guard, b_not(cond)))
                        if f0 and not f1:
                            pred, blk = blk, s0
                            continue
                        if f1 and not f0:
                            pred, blk = blk, s1
                            continue
                        if not f0 and not f1:
                            raise PathDead()
                    if cnt > ctx.unwind:
                        ctx.obligations.append(Obligation("unwinding assertion %s block %d (bound %d)" % (fr.fname, blk, ctx.unwind),
                                                          self.guard, "unwind", term.get("pos", "")))
                        raise PathDead()
                if J is None:
                    # neither side reaches the exit normally... run both to death
                    J = EXIT
                me = blk

                def side(succ):
                    def run():
                        p = self.run_region(fr, succ, me, J)
                        if J != EXIT and p is not PHIS_DONE:
                            self.do_phis(fr, J, p)
                    return run
                saved_visits = dict(fr.visits) if incyc else None
                self.fork(cond, side(s0), side(s1))
                if J == EXIT:
                    return None
                pred, blk = None, J
                phis_done = True
                continue
            raise Unsupported("terminator " + op)
