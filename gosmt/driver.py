"""Check driver: overlay + ssa2json + globals dump + harness execution + query discharge + evidence."""
import json
import os
import shutil
import subprocess
import sys
import threading
import time
import z3

from .values import Unsupported, PathDead, b_and, b_not, b_term
from .program import Program
from .exec import Ctx, Executor, Obligation
from . import harness as H
from . import conc

VERIF = os.path.dirname(os.path.dirname(os.path.abspath(__file__)))
REPO = os.environ.get("VERIF_REPO", "/repo")
MOD = "github.com/crate-crypto/go-ipa"
GOENV = dict(os.environ, GOFLAGS="-mod=mod", GOPROXY="off", GOSUMDB="off", GOTOOLCHAIN="local")

PKGDIRS = {
    MOD: "", MOD + "/common/parallel": "common/parallel", MOD + "/common": "common", MOD + "/ipa": "ipa",
    MOD + "/banderwagon": "banderwagon", MOD + "/bandersnatch": "bandersnatch",
    MOD + "/bandersnatch/fr": "bandersnatch/fr", MOD + "/bandersnatch/fp": "bandersnatch/fp",
}
PKGNAMES = {MOD: "multiproof", MOD + "/common/parallel": "parallel", MOD + "/common": "common", MOD + "/ipa": "ipa",
            MOD + "/banderwagon": "banderwagon", MOD + "/bandersnatch": "bandersnatch",
            MOD + "/bandersnatch/fr": "fr", MOD + "/bandersnatch/fp": "fp"}


def workdir(tag):
    d = os.path.join(VERIF, ".work", os.environ.get("VERIF_RUN_ID", "shared"), tag)
    os.makedirs(d, exist_ok=True)
    return d


def ensure_tools():
    b = os.path.join(VERIF, "bin", "ssa2json")
    src = os.path.join(VERIF, "tools", "ssa2json", "main.go")
    if not os.path.exists(b) or os.path.getmtime(b) < os.path.getmtime(src):
        os.makedirs(os.path.dirname(b), exist_ok=True)
        subprocess.run(["go", "build", "-o", b, "."], cwd=os.path.dirname(src), env=GOENV, check=True)
    return b


class Build:
    """overlay of harness files onto /repo and the SSA dump"""

    def __init__(self, tag, pkgs, entries, allow_extra=(), tags=""):
        self.tag = tag
        self.pkgs = pkgs              # list of package paths that get harness files
        self.entries = entries
        self.dir = workdir(tag)
        self.overlay = {}
        self.allow = [MOD + "/..."] + list(allow_extra)
        self.tags = tags
        self.prog = None

    def make_overlay(self, native=False):
        ov = {}
        tmpl = open(os.path.join(VERIF, "harness", "rt_native.go.tmpl" if native else "rt_sym.go.tmpl")).read()
        for pp in self.pkgs:
            rel = PKGDIRS[pp]
            hd = os.path.join(VERIF, "harness", rel if rel else "root")
            if os.path.isdir(hd):
                for fn in sorted(os.listdir(hd)):
                    if fn.startswith("zz_verif_") and fn.endswith(".go") and (native or not fn.endswith("_test.go")):
                        ov[os.path.join(REPO, rel, fn)] = os.path.join(hd, fn)
            rt = os.path.join(self.dir, "rt_%s_%s.go" % (PKGNAMES[pp], "native" if native else "sym"))
            open(rt, "w").write(tmpl.replace("package PKG", "package " + PKGNAMES[pp]))
            ov[os.path.join(REPO, rel, "zz_verif_rt.go")] = rt
        return ov

    def load(self):
        t0 = time.time()
        tool = ensure_tools()
        ov = self.make_overlay()
        ovf = os.path.join(self.dir, "overlay_sym.json")
        json.dump(ov, open(ovf, "w"))
        out = os.path.join(self.dir, "ssa.json")
        pats = ["./" + PKGDIRS[pp] if PKGDIRS[pp] else "." for pp in self.pkgs]
        cmd = [tool, "-dir", REPO, "-overlay", ovf, "-entries", ",".join(self.entries), "-allow", ",".join(self.allow), "-out", out]
        if self.tags:
            cmd += ["-tags", self.tags]
        cmd += pats
        r = subprocess.run(cmd, env=GOENV, capture_output=True, text=True)
        if r.returncode != 0:
            raise Unsupported("ssa2json failed (harness no longer builds against /repo?):\n" + r.stderr[-3000:])
        self.prog = Program(out)
        if self.prog.missing_entries:
            raise Unsupported("entry functions missing: %s" % self.prog.missing_entries)
        self.load_s = time.time() - t0
        return self.prog

    def dump_globals(self, names_by_pkg):
        """run the packages' own init natively and dump the named package-level variables"""
        from .globals_init import gen_globdump_test
        res = {}
        for pp, names in names_by_pkg.items():
            if not names:
                continue
            rel = PKGDIRS.get(pp)
            if rel is None:
                continue
            tf = os.path.join(self.dir, "globdump_%s_test.go" % PKGNAMES[pp])
            open(tf, "w").write(gen_globdump_test(PKGNAMES[pp], sorted(names)))
            ov = {"Replace": {os.path.join(REPO, rel, "zz_verif_globdump_test.go"): tf}}
            ovf = os.path.join(self.dir, "overlay_globdump_%s.json" % PKGNAMES[pp])
            json.dump(ov, open(ovf, "w"))
            outf = os.path.join(self.dir, "globals_%s.json" % PKGNAMES[pp])
            env = dict(GOENV, VERIF_GLOBDUMP_OUT=outf)
            cmd = ["go", "test", "-vet=off", "-count=1", "-overlay", ovf, "-run", "^TestVerifGlobDump$", "./" + rel if rel else "."]
            if self.tags:
                cmd[2:2] = ["-tags", self.tags]
            r = subprocess.run(cmd, cwd=REPO, env=env, capture_output=True, text=True)
            if r.returncode != 0:
                raise Unsupported("native globals dump failed for %s:\n%s" % (pp, (r.stdout + r.stderr)[-3000:]))
            d = json.load(open(outf))
            for n, v in d.items():
                res[pp + "." + n] = v
        return res

    def needed_globals(self):
        by = {}
        for name, g in self.prog.globals.items():
            by.setdefault(g["pkg"], set()).add(g["name"])
        return by


class Result:
    def __init__(self):
        self.obligations = []
        self.inconclusive = []
        self.violations = []
        self.stats = {}


def run_in_big_thread(fn):
    box = {}

    def target():
        try:
            box["r"] = fn()
        except BaseException as e:  # noqa
            box["e"] = e
    threading.stack_size(1024 * 1024 * 1024)
    sys.setrecursionlimit(1000000)
    t = threading.Thread(target=target)
    t.start()
    t.join()
    if "e" in box:
        raise box["e"]
    return box.get("r")


def execute(prog, entry, intmode="bv", params=None, setup=None, unwind=64, prune=True, globals_init=None,
            harness_pkgs=(), panic_is_obligation=True, access_log=False, concrete=None):
    """symbolically execute one harness entry point; returns (ctx, ex)"""
    prog.opaque = {}
    prog._lay.clear()
    ctx = Ctx(prog, intmode=intmode, unwind=unwind, prune=prune)
    ctx.params = dict(params or {})
    ctx.panic_is_obligation = panic_is_obligation
    ctx.concrete = concrete
    ex = Executor(ctx)
    ex.intrinsics.update(conc.INTRINSICS)
    H.install(ex, harness_pkgs)
    if globals_init:
        ex.global_init = globals_init
    if access_log:
        ex.access_log = []
    if setup:
        setup(ex)
    t0 = time.time()

    def go():
        try:
            ex.call_function(entry, [])
            ctx.completed = True
        except PathDead:
            ctx.completed = True
            ctx.all_dead = True
    ctx.completed = False
    ctx.all_dead = False
    run_in_big_thread(go)
    ctx.exec_s = time.time() - t0
    return ctx, ex


def _frac(t, memo):
    """Real term with division -> (numerator, denominator) polynomial terms"""
    k = t.get_id()
    if k in memo:
        return memo[k]
    if z3.is_rational_value(t) or z3.is_const(t):
        r = (t, None)
    elif t.decl().kind() not in (z3.Z3_OP_ADD, z3.Z3_OP_SUB, z3.Z3_OP_MUL, z3.Z3_OP_DIV, z3.Z3_OP_UMINUS):
        r = (t, None)
    else:
        op = t.decl().kind()
        ch = [_frac(x, memo) for x in t.children()]

        def addsub(sign):
            n, d = ch[0]
            for (n2, d2) in ch[1:]:
                if d is None and d2 is None:
                    n = n + n2 if sign > 0 else n - n2
                elif d is not None and d2 is not None and d.eq(d2):
                    n = n + n2 if sign > 0 else n - n2
                else:
                    a = n if d2 is None else n * d2
                    b = n2 if d is None else n2 * d
                    n = a + b if sign > 0 else a - b
                    d = d2 if d is None else (d if d2 is None else d * d2)
            return (n, d)
        if op == z3.Z3_OP_ADD:
            r = addsub(1)
        elif op == z3.Z3_OP_SUB:
            r = addsub(-1)
        elif op == z3.Z3_OP_MUL:
            n, d = ch[0]
            for (n2, d2) in ch[1:]:
                n = n * n2
                d = d2 if d is None else (d if d2 is None else d * d2)
            r = (n, d)
        elif op == z3.Z3_OP_DIV:
            (n1, d1), (n2, d2) = ch
            n = n1 if d2 is None else n1 * d2
            d = n2 if d1 is None else d1 * n2
            r = (n, d)
        elif op == z3.Z3_OP_UMINUS:
            r = (-ch[0][0], ch[0][1])
        else:
            # any other term (conditional, uninterpreted application): an atom of the polynomial ring
            r = (t, None)
    memo[k] = r
    return r


def dag_vars(ts):
    """uninterpreted constants of a list of terms (DAG traversal with a visited set)"""
    seen = set()
    out = {}
    stack = list(ts)
    while stack:
        t = stack.pop()
        k = t.get_id()
        if k in seen:
            continue
        seen.add(k)
        if z3.is_const(t):
            if t.decl().kind() == z3.Z3_OP_UNINTERPRETED:
                out[k] = t
            continue
        stack.extend(t.children())
    return out


def identity_by_normal_form(lhs, rhs, points=None):
    """(True, None) if lhs - rhs (rational functions) normalises to the zero polynomial in z3's rewriter;
    (False, assignment) if a concrete point is found where the two sides differ (denominators and facts fine);
    (None, None) if undecided"""
    try:
        memo = {}
        (n1, d1), (n2, d2) = _frac(lhs, memo), _frac(rhs, memo)
        a = n1 if d2 is None else n1 * d2
        b = n2 if d1 is None else n2 * d1
        diff = a - b
        # 1. polynomial normal form (bounded rewriting effort): proves identities
        e = z3.simplify(diff, som=True, som_blowup=100000000, max_steps=3000000)
        if z3.is_rational_value(e) and e.numerator_as_long() == 0:
            return True, None
        # 2. ground witness points: a non-zero value refutes the identity
        if points:
            need = None
            for full in points:
                if need is None:
                    need = set(dag_vars([diff] + [d for d in (d1, d2) if d is not None]).keys())
                asg = [(v, c) for (v, c) in full if v.get_id() in need]
                if not asg:
                    break
                ok = True
                for d in (d1, d2):
                    if d is not None and not z3.is_false(z3.simplify(z3.substitute(d == 0, *asg))):
                        ok = False
                if not ok:
                    continue
                val = z3.simplify(z3.substitute(diff, *asg))
                if z3.is_rational_value(val) and val.numerator_as_long() != 0:
                    return False, {str(v): str(c) for v, c in asg}
        return None, None
    except Exception:
        return None, None


class Discharger:
    """obligation manager: one incremental solver with the run's facts, push/pop per obligation"""

    def __init__(self, ctx, timeout_ms=60000, tactic=None):
        self.ctx = ctx
        self.timeout_ms = timeout_ms
        self.solver = z3.Solver() if tactic is None else z3.Tactic(tactic).solver()
        self.solver.set("timeout", timeout_ms)
        self.nfacts = 0
        self.log = []

    def witness_points(self):
        """a few random assignments of all real/int/bool symbols of the run that satisfy the recorded facts"""
        if getattr(self, "_points", None) is not None:
            return self._points
        import random
        from z3 import z3util
        vs = dag_vars([t for n, (t, w_, s_) in self.ctx.vars.items() if is_term_(t)] + list(self.ctx.facts))
        vs = list(vs.values())
        rng = random.Random(11)
        pts = []
        for attempt in range(20):
            asg = []
            bad = False
            for v in vs:
                if z3.is_real(v):
                    asg.append((v, z3.RealVal(rng.randrange(2, 10 ** 6))))
                elif z3.is_int(v):
                    asg.append((v, z3.IntVal(rng.randrange(2, 10 ** 6))))
                elif z3.is_bool(v):
                    asg.append((v, z3.BoolVal(rng.random() < 0.5)))
                else:
                    bad = True
            if bad:
                break
            if all(z3.is_true(z3.simplify(z3.substitute(f, *asg))) for f in self.ctx.facts):
                pts.append(asg)
            if len(pts) >= 3:
                break
        self._points = pts
        return pts

    def sync_facts(self):
        fs = self.ctx.facts
        while self.nfacts < len(fs):
            self.solver.add(fs[self.nfacts])
            self.nfacts += 1

    def check(self, ob, assume_after=False):
        self.sync_facts()
        t0 = time.time()
        c = ob.cond
        if c is False:
            ob.status = "unsat"
            ob.time = 0.0
            if ob.kind == "reach":
                ob.status = "unsat"
            return ob.status
        ident = getattr(ob, "ident", None)
        if ident is not None:
            res, wit = identity_by_normal_form(ident[0], ident[1], self.witness_points())
            if res is True:
                ob.status = "unsat"
                ob.time = time.time() - t0
                ob.how = "polynomial normal form (z3 rewriter)"
                return ob.status
            if res is False:
                ob.status = "sat"
                ob.witness = wit
                ob.model = None
                ob.time = time.time() - t0
                return ob.status
        self.solver.push()
        self.solver.add(b_term(c))
        hint = getattr(self.ctx, "reach_hint", None)
        r = None
        if ob.kind == "reach" and hint:
            # satisfiable-side help only: try a concrete input first (a model of the hinted query is a model of the
            # query); an unsat / unknown answer of the hinted query proves nothing and the plain query is asked
            self.solver.push()
            for n, val in hint.items():
                if n in self.ctx.vars and is_term_(self.ctx.vars[n][0]) and not z3.is_bool(self.ctx.vars[n][0]):
                    self.solver.add(self.ctx.vars[n][0] == val)
            r2 = self.solver.check()
            if r2 == z3.sat:
                r = r2
                try:
                    ob.model = self.solver.model()
                except z3.Z3Exception:
                    ob.model = None
            self.solver.pop()
            if r == z3.sat:
                ob.status = "sat"
                self.solver.pop()
                ob.time = time.time() - t0
                return ob.status
        r = self.solver.check()
        if r == z3.sat:
            ob.status = "sat"
            try:
                ob.model = self.solver.model()
            except z3.Z3Exception:
                ob.model = None
        elif r == z3.unsat:
            ob.status = "unsat"
        else:
            ob.status = "unknown:" + self.solver.reason_unknown()
        self.solver.pop()
        ob.time = time.time() - t0
        return ob.status


def is_term_(t):
    return isinstance(t, z3.ExprRef)


def model_values(ctx, model):
    out = {}
    if model is None:
        return out
    for n, (t, w, signed) in ctx.vars.items():
        if not is_term_(t):
            out[n] = t
            continue
        v = model.eval(t, model_completion=True)
        try:
            if z3.is_real(v) and z3.is_rational_value(v):
                out[n] = "%d/%d" % (v.numerator_as_long(), v.denominator_as_long())
            elif z3.is_bool(v):
                out[n] = bool(z3.is_true(v))
            else:
                iv = v.as_long()
                if signed and z3.is_bv(v) and iv >= (1 << (w - 1)):
                    iv -= (1 << w)
                out[n] = iv
        except Exception:
            out[n] = str(v)
    return out


def prove_lemmas(ctx, d, timeout_ms=10000, budget_s=400):
    """dropped-result lemmas (DESIGN 3.1): prove `guard -> term == 0` in program order; proven ones become facts"""
    if not hasattr(ctx, "lemma_state"):
        ctx.lemma_state = [None] * len(ctx.lemma_candidates)
    proven = 0
    d.solver.set("timeout", timeout_ms)
    t_start = time.time()
    fails = 0
    for i, (label, guard, term) in enumerate(ctx.lemma_candidates):
        if ctx.lemma_state[i] is True:
            proven += 1
            continue
        if time.time() - t_start > budget_s or fails >= 8:
            break
        d.sync_facts()
        d.solver.push()
        d.solver.add(b_term(b_and(guard, term != 0)))
        r = d.solver.check()
        d.solver.pop()
        if r == z3.unsat:
            ctx.add_fact(z3.Implies(b_term(guard), term == 0))
            ctx.lemma_state[i] = True
            proven += 1
        elif r == z3.sat:
            ctx.lemma_state[i] = False
        else:
            fails += 1
    d.solver.set("timeout", d.timeout_ms)
    ctx.lemma_stats = {"candidates": len(ctx.lemma_candidates), "proven": proven}
    return proven


def cross_check(smt2_texts, timeout_s=60):
    """re-run exported queries with the other installed solvers (/usr/bin/z3 4.8.12, cvc5): returns a list of verdict dicts"""
    import subprocess
    import tempfile
    out = []
    for label, txt, expected in smt2_texts:
        res = {"label": label[:80], "z3py": expected}
        with tempfile.NamedTemporaryFile("w", suffix=".smt2", delete=False, dir=workdir("xcheck")) as f:
            f.write(txt)
            path = f.name
        for name, cmd in (("z3-4.8.12", ["/usr/bin/z3", "-T:%d" % timeout_s, path]), ("cvc5", ["cvc5", "--tlimit=%d" % (timeout_s * 1000), path])):
            try:
                r = subprocess.run(cmd, capture_output=True, text=True, timeout=timeout_s + 10)
                o = (r.stdout + r.stderr).strip().split("\n")
                first = o[0].strip() if o else ""
                if "(error" in (r.stdout + r.stderr) or first not in ("sat", "unsat", "unknown"):
                    res[name] = "inconclusive: " + first[:60]
                else:
                    res[name] = first
            except Exception as e:  # noqa
                res[name] = "inconclusive: %r" % (e,)
        try:
            os.unlink(path)
        except OSError:
            pass
        res["agree"] = all(v == expected for k, v in res.items() if k in ("z3-4.8.12", "cvc5") and v in ("sat", "unsat"))
        out.append(res)
    return out


def discharge_all(ctx, extra=(), timeout_ms=60000, label_prefix="", lemmas=False, skip_reach=False, retry_timeout_ms=None):
    """discharge every obligation of a run; returns list of dict records"""
    d = Discharger(ctx, timeout_ms)
    if lemmas:
        prove_lemmas(ctx, d)
    recs = []
    nsat = 0
    max_sat = int(os.environ.get("VERIF_MAX_SAT_PER_GROUP", "12"))
    for ob in list(ctx.obligations) + list(extra):
        if ob.kind == "reach" and skip_reach:
            continue
        if nsat >= max_sat and ob.kind != "reach":
            # enough counterexamples in this group: the rest is not examined (reported as inconclusive, never as success)
            recs.append({"label": label_prefix + ob.label, "kind": ob.kind, "status": "unknown:skipped after %d violations in this group" % max_sat,
                         "time_s": 0, "pos": ob.pos, "ok": False, "verdict": "inconclusive"})
            continue
        st = d.check(ob)
        if st == "sat" and ob.kind != "reach":
            nsat += 1
        rec = {"label": label_prefix + ob.label, "kind": ob.kind, "status": st, "time_s": round(ob.time, 4), "pos": ob.pos}
        if ob.kind == "reach":
            rec["ok"] = (st == "sat")
            rec["verdict"] = "reached" if st == "sat" else ("vacuous" if st == "unsat" else "inconclusive")
        else:
            rec["ok"] = (st == "unsat")
            rec["verdict"] = "holds" if st == "unsat" else ("violated" if st == "sat" else "inconclusive")
            if st == "sat":
                rec["model"] = model_values(ctx, ob.model)
        rec["_ob"] = ob
        recs.append(rec)
    if lemmas and any(r["verdict"] == "inconclusive" for r in recs) and any(x is None for x in getattr(ctx, "lemma_state", [])):
        # second pass: unproven (unknown) lemmas with a longer timeout, then retry the inconclusive obligations
        prove_lemmas(ctx, d, timeout_ms=90000)
        if retry_timeout_ms:
            d.timeout_ms = retry_timeout_ms
            d.solver.set("timeout", retry_timeout_ms)
        for rec in recs:
            if rec["verdict"] == "inconclusive" and rec["kind"] != "reach":
                ob = rec["_ob"]
                st = d.check(ob)
                rec["status"] = st
                rec["time_s"] = round(rec["time_s"] + ob.time, 4)
                rec["ok"] = (st == "unsat")
                rec["verdict"] = "holds" if st == "unsat" else ("violated" if st == "sat" else "inconclusive")
                if st == "sat":
                    rec["model"] = model_values(ctx, ob.model)
    # thorough tier: export a few discharged queries and diff them against the other installed solvers
    if os.environ.get("VERIF_XCHECK") == "1":
        samples = []
        step = max(1, len(recs) // 4)
        for rec in recs[::step][:4]:
            ob = rec.get("_ob")
            if ob is None or rec["status"] not in ("sat", "unsat") or ob.cond is False or ob.cond is True or getattr(ob, "how", None):
                continue
            sx = z3.Solver()
            for f in ctx.facts:
                sx.add(f)
            sx.add(b_term(ob.cond))
            try:
                samples.append((rec["label"], sx.to_smt2(), rec["status"]))
            except Exception:
                pass
        if samples:
            xc = cross_check(samples)
            if recs:
                recs[0]["cross_check"] = xc
    for rec in recs:
        rec.pop("_ob", None)
    return recs


def concrete_witness(prog, entry, values, judge=None, **kw):
    """reachability witness + encoder self-test: run the harness through the executor with concrete inputs
    (terms fold to numerals).  judge(ctx) -> True if the concrete outputs violate the specification."""
    ctx, ex = execute(prog, entry, concrete=dict(values), **kw)
    reached = any(g is True for g in ctx.reached.values())
    bad = None
    if judge is not None and reached:
        bad = judge(ctx)
    ok = reached and not bad
    if reached and bad:
        return {"label": "concrete counterexample: specification fails on a concrete run of the encoding", "kind": "assert", "status": "sat",
                "time_s": round(ctx.exec_s, 4), "pos": "", "ok": False, "verdict": "violated", "model": dict(values)}, ctx
    return {"label": "reachability witness: concrete run of the encoding reaches the end and meets the specification (inputs %s)" % (dict(list(values.items())[:4]),),
            "kind": "reach", "status": "sat" if ok else "unsat", "time_s": round(ctx.exec_s, 4), "pos": "", "ok": ok,
            "verdict": "reached" if ok else "vacuous", "concrete_notes": None}, ctx
