"""common.Transcript summarised as an absorb log (DESIGN C01/O2): every challenge is a fresh field symbol that stands for
H(everything absorbed before it); two transcripts agree iff their logs agree item by item."""
import z3
from .values import Unsupported, Ptr, Slice, is_term
from .field import FVal

CM = "github.com/crate-crypto/go-ipa/common"
TT = CM + ".Transcript"


class TLogDom:
    def zero(self, tid=None):
        return None

    def ite(self, c, a, b):
        if a is b:
            return a
        raise Unsupported("merge of transcripts")

    def same(self, ex, a, b):
        return a is b

    equal = same

    def from_dump(self, ex, j, tid):
        raise Unsupported("transcript global")


def label_bytes(ex, s):
    n = s.len
    out = []
    for i in range(n):
        b = ex.load(Ptr(s.ptr.obj, s.ptr.off + i, s.ptr.sym), "uint8")
        if is_term(b):
            raise Unsupported("symbolic transcript label")
        out.append(b)
    return bytes(out)


def install(ex, fdom, fr_type, pt_type, getg):
    """fdom: field domain (RealDom); getg(ex, ptr) -> group value of a point"""
    ex.prog.opaque[TT] = TLogDom()
    ex.prog._lay.clear()
    I = ex.intrinsics
    ex.ctx.tlogs = {}
    ex.ctx.nchal = 0

    def key(p):
        return ("TLOG", p.obj, p.off)

    def log(ex_, p):
        return ex_.store.get(key(p), ())

    def add(ex_, p, item):
        ex_.write(key(p), log(ex_, p) + (item,))

    def new(ex_, args, ins):
        p = ex_.alloc(TT, label="Transcript", cells=[None])
        lab = args[0] if isinstance(args[0], str) else "?"
        ex_.write(key(p), (("new", lab.encode() if isinstance(lab, str) else lab),))
        ex_.ctx.tlogs[len(ex_.ctx.tlogs)] = p
        return (p,)
    I[CM + ".NewTranscript"] = new
    I["(*%s).DomainSep" % TT] = lambda ex_, args, ins: (add(ex_, args[0], ("sep", label_bytes(ex_, args[1]))), ())[1]
    I["(*%s).AppendMessage" % TT] = lambda ex_, args, ins: (add(ex_, args[0], ("msg", label_bytes(ex_, args[2]), label_bytes(ex_, args[1]))), ())[1]
    I["(*%s).AppendScalar" % TT] = lambda ex_, args, ins: (add(ex_, args[0], ("scalar", label_bytes(ex_, args[2]), ex_.load(args[1], fr_type))), ())[1]
    I["(*%s).AppendPoint" % TT] = lambda ex_, args, ins: (add(ex_, args[0], ("point", label_bytes(ex_, args[2]), getg(ex_, args[1]))), ())[1]

    def challenge(ex_, args, ins):
        p, lab = args
        lb = label_bytes(ex_, lab)
        hist = log(ex_, p)
        # same absorbed history (syntactically identical items) -> same challenge symbol
        for (h2, sym) in ex_.ctx.__dict__.setdefault("chal_table", []):
            if same_log(ex_, h2, hist + (("chal-label", lb),)) is True:
                v = sym
                break
        else:
            ex_.ctx.nchal += 1
            v = fdom.sym("chal_%d_%s" % (ex_.ctx.nchal, lb.decode("latin-1")), nonzero=True, ctx=ex_.ctx)
            ex_.ctx.chal_table.append((hist + (("chal-label", lb),), v))
        add(ex_, p, ("challenge", lb, v))
        return (v,)
    I["(*%s).ChallengeScalar" % TT] = challenge


def item_same(ex, a, b):
    """True / False / formula: two log items are the same"""
    if a[0] != b[0] or a[1] != b[1]:
        return False
    if a[0] in ("new", "sep", "chal-label"):
        return True
    if a[0] == "msg":
        return a[2] == b[2]
    x, y = a[2], b[2]
    if isinstance(x, FVal):
        if x.t.eq(y.t):
            return True
        return x.t == y.t
    return x.dom.same(ex, x, y)


def same_log(ex, l1, l2):
    if len(l1) != len(l2):
        return False
    r = True
    from .values import b_and
    for a, b in zip(l1, l2):
        s = item_same(ex, a, b)
        if s is False:
            return False
        r = b_and(r, s)
    return r
