"""Harness-side intrinsics (vInt, vAssume, vAssert, ...) shared by all checks."""
import z3
from .values import (Unsupported, PathDead, Ptr, Slice, Iface, Guarded, is_term, b_and, b_or, b_not, simp_bool, cases_of)
from .exec import Obligation

V_FUNCS = {}


def vfunc(name):
    def deco(f):
        V_FUNCS[name] = f
        return f
    return deco


def _name(ex, s):
    if not isinstance(s, str):
        raise Unsupported("harness variable name must be a constant string")
    if s in ex.ctx.vars:
        i = 1
        while "%s#%d" % (s, i) in ex.ctx.vars:
            i += 1
        s = "%s#%d" % (s, i)
    return s


def _fresh(ex, name, w, signed):
    n = _name(ex, name)
    conc = getattr(ex.ctx, "concrete", None)
    if conc is not None:
        from .iops import norm
        v = norm(int(conc.get(n, 0)), w, signed)
        ex.ctx.vars[n] = (v, w, signed)
        return v
    if ex.ctx.intmode == "bv":
        t = z3.BitVec(n, w)
    else:
        t = z3.Int(n)
        if signed:
            ex.ctx.add_fact(z3.And(t >= -(1 << (w - 1)), t < (1 << (w - 1))))
        else:
            ex.ctx.add_fact(z3.And(t >= 0, t < (1 << w)))
    ex.ctx.vars[n] = (t, w, signed)
    return t


@vfunc("vInt")
def v_int(ex, args, ins):
    return (_fresh(ex, args[0], 64, True),)


@vfunc("vU64")
def v_u64(ex, args, ins):
    return (_fresh(ex, args[0], 64, False),)


@vfunc("vU8")
def v_u8(ex, args, ins):
    return (_fresh(ex, args[0], 8, False),)


@vfunc("vBool")
def v_bool(ex, args, ins):
    n = _name(ex, args[0])
    conc = getattr(ex.ctx, "concrete", None)
    if conc is not None:
        v = bool(conc.get(n, False))
        ex.ctx.vars[n] = (v, 1, False)
        return (v,)
    t = z3.Bool(n)
    ex.ctx.vars[n] = (t, 1, False)
    return (t,)


@vfunc("vParamInt")
def v_param(ex, args, ins):
    v = ex.ctx.params.get(args[0])
    if v is None:
        raise Unsupported("missing harness parameter " + args[0])
    return (v,)


@vfunc("vBytes")
def v_bytes(ex, args, ins):
    name, n = args
    if is_term(n):
        raise Unsupported("vBytes with symbolic length")
    cells = [_fresh(ex, "%s[%d]" % (name, i), 8, False) for i in range(n)]
    ptr = ex.alloc("uint8", label="vBytes " + name, cells=cells, count=n)
    return (Slice(ptr, n, n, "uint8"),)


@vfunc("vAssume")
def v_assume(ex, args, ins):
    c = args[0]
    ex.assume(simp_bool(c) if is_term(c) else c)
    return ()


@vfunc("vAssert")
def v_assert(ex, args, ins):
    c, label = args
    if c is True:
        ex.ctx.obligations.append(Obligation(label, False, "assert", ins.get("pos", "") if ins else ""))
        return ()
    ex.ctx.obligations.append(Obligation(label, b_and(ex.guard, b_not(c)), "assert", ins.get("pos", "") if ins else ""))
    if c is False:
        raise PathDead()
    ex.assume(c)
    return ()


@vfunc("vReach")
def v_reach(ex, args, ins):
    ex.ctx.reached[args[0]] = ex.guard
    ex.ctx.obligations.append(Obligation("reachability witness: " + args[0], ex.guard, "reach"))
    return ()


@vfunc("vSymbolic")
def v_symbolic(ex, args, ins):
    return (True,)


@vfunc("vNote")
def v_note(ex, args, ins):
    label, v = args
    if isinstance(v, Iface):
        v = v.val
    ex.ctx.notes.append((label, ex.guard, v))
    return ()


@vfunc("vProtect")
def v_protect(ex, args, ins):
    iv, label = args
    protect(ex, iv, label)
    return ()


@vfunc("vLock")
def v_lock(ex, args, ins):
    return ()


@vfunc("vUnlock")
def v_unlock(ex, args, ins):
    return ()


@vfunc("vSleep")
def v_sleep(ex, args, ins):
    return ()


@vfunc("vMark")
def v_mark(ex, args, ins):
    from .conc import event
    event(ex, "mark", label=args[0])
    return ()


def protect(ex, iv, label):
    """snapshot the memory reachable (one level) from an interface-wrapped pointer or slice"""
    p = ex.prog
    if isinstance(iv, Iface):
        tid, v = iv.tid, iv.val
    else:
        raise Unsupported("vProtect expects an interface value")
    d = p.under(tid)
    if d["kind"] == "pointer":
        n = p.ncells(d["elem"])
        for g, q in cases_of(v):
            if q is None or q.sym:
                continue
            snap = [ex.store[(q.obj, q.off + i)] for i in range(n)]
            ex.protected.append((label, q.obj, q.off, n, snap, d["elem"]))
    elif d["kind"] == "slice":
        st = p.ncells(d["elem"])
        if v.ptr is None:
            return
        n = v.len * st
        snap = [ex.store[(v.ptr.obj, v.ptr.off + i)] for i in range(n)]
        ex.protected.append((label, v.ptr.obj, v.ptr.off, n, snap, d["elem"]))
    else:
        raise Unsupported("vProtect on " + tid)


def protect_object(ex, ptr, n, label, elem=None):
    snap = [ex.store[(ptr.obj, ptr.off + i)] for i in range(n)]
    ex.protected.append((label, ptr.obj, ptr.off, n, snap, elem))


def cells_differ(ex, a, b, tid):
    """formula: two leaf cells differ (None if certainly equal)"""
    if a is b:
        return False
    if isinstance(a, tuple) or isinstance(b, tuple):
        if isinstance(a, tuple) and isinstance(b, tuple):
            from .iohash import cell_equal
            return b_not(cell_equal(a, b))
        return True
    p = ex.prog
    if is_term(a) or is_term(b) or isinstance(a, (int, bool)):
        if isinstance(a, bool) or isinstance(b, bool) or (is_term(a) and z3.is_bool(a)):
            from .values import b_term
            r = b_term(a) != b_term(b)
        else:
            if not is_term(a) and not is_term(b):
                return a != b
            r = a != b
        return simp_bool(r)
    dom = getattr(a, "dom", None)
    if dom is not None:
        return b_not(dom.same(ex, a, b))
    from .instrs import ptr_eq
    return b_not(ptr_eq(ex, a, b))


def frame_obligations(ex):
    """write monitor: every protected cell must equal its snapshot"""
    out = []
    for (label, obj, off, n, snap, elem) in ex.protected:
        diffs = []
        for i in range(n):
            cur = ex.store[(obj, off + i)]
            d = cells_differ(ex, cur, snap[i], None)
            if d is not False:
                diffs.append((i, d))
        if not diffs:
            out.append(Obligation("unchanged: " + label, False, "assert"))
        for i, d in diffs:
            out.append(Obligation("unchanged: %s cell %d" % (label, i), b_and(ex.guard, d), "assert"))
    return out


def install(ex, pkgpaths):
    for pp in pkgpaths:
        for n, f in V_FUNCS.items():
            ex.intrinsics[pp + "." + n] = f
