"""Stubs for hash.Hash (uninterpreted, structural), bytes.Buffer and the transcript value domain (DESIGN 3.5)."""
import z3
from .values import Unsupported, Ptr, Slice, Iface, is_term, b_and, b_or, b_not, simp_bool


def seq_equal(a, b):
    """equality formula of two byte sequences whose elements are z3 BV8 terms, ints or structural tuples"""
    if len(a) != len(b):
        return False
    r = True
    for x, y in zip(a, b):
        e = cell_equal(x, y)
        if e is False:
            return False
        r = b_and(r, e)
    return r


def cell_equal(x, y):
    if isinstance(x, tuple) and x[0] == "ic":
        return _ite_formula(x[1], cell_equal(x[2], y), cell_equal(x[3], y))
    if isinstance(y, tuple) and y[0] == "ic":
        return _ite_formula(y[1], cell_equal(x, y[2]), cell_equal(x, y[3]))
    if isinstance(x, tuple) or isinstance(y, tuple):
        if not (isinstance(x, tuple) and isinstance(y, tuple)):
            return False
        if x[0] != y[0] or x[-1] != y[-1]:
            return False
        return val_equal(x[1], y[1])
    if is_term(x) or is_term(y):
        if not is_term(x):
            x = z3.BitVecVal(x, y.size())
        if not is_term(y):
            y = z3.BitVecVal(y, x.size())
        return simp_bool(x == y)
    return x == y


_MEMO = {}


def _ite_formula(c, a, b):
    if a is True and b is True:
        return True
    if a is False and b is False:
        return False
    from .values import b_term
    return simp_bool(z3.If(c, b_term(a), b_term(b)))


def val_equal(u, v):
    """u, v: structural values: ('sym', name) | ('chal', digestseq) | ('digest', seq)"""
    if u is v:
        return True
    if u[0] == "ite":
        return _ite_formula(u[1], val_equal(u[2], v), val_equal(u[3], v))
    if v[0] == "ite":
        return _ite_formula(v[1], val_equal(u, v[2]), val_equal(u, v[3]))
    if u[0] != v[0]:
        return False
    if u[0] in ("sym",):
        return u[1] == v[1]
    if u[1] is v[1]:
        return True
    k = (id(u[1]), id(v[1]))
    hit = _MEMO.get(k)
    if hit is not None:
        return hit[0]
    r = seq_equal(u[1], v[1])
    _MEMO[k] = (r, u[1], v[1])
    return r


class HashObj:
    """hash.Hash with an uninterpreted digest: Sum returns 32 structural bytes of ('digest', sequence)"""

    def __init__(self, ex):
        self.key = ("HASH", ex.next_obj)
        ex.next_obj += 1
        ex.write(self.key, ())

    def invoke(self, ex, method, args, ins):
        if method == "Write":
            p = args[0]
            n = p.len
            if is_term(n):
                raise Unsupported("hash.Write with symbolic length")
            data = tuple(ex.load(Ptr(p.ptr.obj, p.ptr.off + i, p.ptr.sym), "uint8") for i in range(n)) if n else ()
            ex.write(self.key, ex.store[self.key] + data)
            ex.ctx.hash_writes = getattr(ex.ctx, "hash_writes", 0) + 1
            return (n, None)
        if method == "Sum":
            b = args[0]
            if b is not None and not (isinstance(b, Slice) and b.ptr is None) and not (isinstance(b, Slice) and b.len == 0):
                raise Unsupported("hash.Sum with a non-empty prefix")
            d = ("digest", ex.store[self.key])
            cells = [("hb", d, i) for i in range(32)]
            ptr = ex.alloc("uint8", label="digest", cells=cells, count=32)
            return Slice(ptr, 32, 32, "uint8")
        if method == "Reset":
            ex.write(self.key, ())
            return None
        raise Unsupported("hash." + method)


class TDom:
    """scalar-field elements in transcript harnesses: symbols or challenges (structural)"""
    name = "T"

    def zero(self, tid=None):
        return TVal(("sym", "0"), self)

    def ite(self, c, a, b):
        if a is b or a.v is b.v or (a.v[0] == "sym" and b.v[0] == "sym" and a.v[1] == b.v[1]):
            return a
        return TVal(("ite", c, a.v, b.v), self)

    def same(self, ex, a, b):
        return val_equal(a.v, b.v)

    equal = same

    def from_dump(self, ex, j, tid):
        return TVal(("sym", "native"), self)


class TVal:
    __slots__ = ("v", "dom")

    def __init__(self, v, dom):
        self.v = v
        self.dom = dom


def install_transcript(ex, fr_type, fr_pkg, point_type=None):
    dom = TDom()
    ex.prog.opaque[fr_type] = dom
    ex.prog._lay.clear()
    I = ex.intrinsics
    I["crypto/sha256.New"] = lambda ex_, args, ins: (Iface("*crypto/sha256.digest", HashObj(ex_)),)

    def setbytesle(ex_, args, ins):
        z, buf = args
        n = buf.len
        cells = tuple(ex_.load(Ptr(buf.ptr.obj, buf.ptr.off + i, buf.ptr.sym), "uint8") for i in range(n))
        ex_.store_to(z, TVal(("chal", cells), dom), fr_type)
        # the decoder must not touch its input: nothing is written by this stub; the real routine is C16
        return (z,)
    I["(*%s).SetBytesLE" % fr_type] = setbytesle

    def bytesle(ex_, args, ins):
        v = ex_.load(args[0], fr_type)
        return (tuple(("fb", v.v, i) for i in range(32)),)
    I["(*%s).BytesLE" % fr_type] = bytesle
    I["(*%s).Equal" % fr_type] = lambda ex_, args, ins: (val_equal(ex_.load(args[0], fr_type).v, ex_.load(args[1], fr_type).v),)
    return dom


# ---------------------------------------------------------------- bytes.Buffer
def install_buffer(ex):
    I = ex.intrinsics
    BT = "bytes.Buffer"

    class BufDom:
        def zero(self, tid=None):
            return None

        def ite(self, c, a, b):
            if a is b:
                return a
            raise Unsupported("merge of buffers")

        def same(self, ex_, a, b):
            return a is b

        equal = same

        def from_dump(self, ex_, j, tid):
            raise Unsupported("buffer global")
    ex.prog.opaque[BT] = BufDom()
    ex.prog._lay.clear()

    def key(ex_, p):
        return ("BUF", p.obj, p.off)

    def newbuffer(ex_, args, ins):
        b = args[0]
        n = b.len
        data = tuple(ex_.load(Ptr(b.ptr.obj, b.ptr.off + i, b.ptr.sym), "uint8") for i in range(n)) if n else ()
        p = ex_.alloc(BT, label="bytes.Buffer", cells=[None])
        ex_.write(key(ex_, p), data)
        ex_.write(key(ex_, p) + ("cap",), b.cap)
        return (p,)
    I["bytes.NewBuffer"] = newbuffer

    def content(ex_, p):
        return ex_.store.get(key(ex_, p), ())

    def write(ex_, args, ins):
        p, b = args
        n = b.len
        if is_term(n):
            raise Unsupported("Buffer.Write with symbolic length")
        data = tuple(ex_.load(Ptr(b.ptr.obj, b.ptr.off + i, b.ptr.sym), "uint8") for i in range(n)) if n else ()
        cur = content(ex_, p)
        ex_.write(key(ex_, p), cur + data)
        cap = ex_.store.get(key(ex_, p) + ("cap",), 0)
        if len(cur) + n > cap:
            ex_.write(key(ex_, p) + ("cap",), 2 * cap + n)
        return (n, None)
    I["(*bytes.Buffer).Write"] = write

    def bytes_(ex_, args, ins):
        cur = content(ex_, args[0])
        ptr = ex_.alloc("uint8", label="Buffer.Bytes", cells=list(cur), count=len(cur))
        return (Slice(ptr, len(cur), len(cur), "uint8"),)
    I["(*bytes.Buffer).Bytes"] = bytes_
    I["(*bytes.Buffer).Reset"] = lambda ex_, args, ins: (ex_.write(key(ex_, args[0]), ()), ())[1]
    I["(*bytes.Buffer).Len"] = lambda ex_, args, ins: (len(content(ex_, args[0])),)
    I["(*bytes.Buffer).Cap"] = lambda ex_, args, ins: (ex_.store.get(key(ex_, args[0]) + ("cap",), 0),)
    I["(*bytes.Buffer).Available"] = lambda ex_, args, ins: (max(0, ex_.store.get(key(ex_, args[0]) + ("cap",), 0) - len(content(ex_, args[0]))),)
