"""Goroutines (eager schedule + event log), channels, maps, WaitGroup, errgroup."""
import z3
from .values import (Unsupported, PathDead, Ptr, Slice, Iface, Closure, Chan, GoMap, MapIter, Guarded,
                     is_term, b_and, b_or, b_not, simp_bool, cases_of)


def event(ex, kind, **kw):
    kw["kind"] = kind
    kw["task"] = ex.task
    kw["guard"] = ex.guard
    kw["seq"] = len(ex.events)
    ex.events.append(kw)


# ---------------------------------------------------------------- goroutines
def spawn(ex, fr, ins):
    call = ins["call"]
    args = [ex.val(fr, a) for a in call["args"]]
    parent = ex.task
    tid = ex.next_task
    ex.next_task += 1
    event(ex, "spawn", child=tid, pos=ins.get("pos", ""))
    ex.task = tid
    g_before = ex.guard
    p_before = ex.partial
    try:
        if call["mode"] == "static":
            bindings = ()
            if "closure" in call:
                bindings = ex.val(fr, call["closure"]).bindings
            ex.call_function(call["fn"], args, ins, bindings)
        elif call["mode"] == "dynamic":
            ex.call_value(ex.val(fr, call["value"]), args, ins)
        else:
            raise Unsupported("go with mode " + call["mode"])
    except PathDead:
        # a goroutine that panics kills the program; the panic obligation is already recorded
        ex.task = parent
        raise
    finally:
        ex.task = parent
    event(ex, "end", child=tid)
    return None


# ---------------------------------------------------------------- WaitGroup
def _wgkey(p):
    if not isinstance(p, Ptr):
        raise Unsupported("WaitGroup through guarded pointer")
    return ("WG", p.obj, p.off)


def wg_add(ex, args, ins):
    k = _wgkey(args[0])
    cur = ex.store.get(k, 0)
    ex.write(k, ex.iops.binop("+", cur, args[1], 64, True))
    event(ex, "wg_add", wg=k, n=args[1])
    return ()


def wg_done(ex, args, ins):
    k = _wgkey(args[0])
    cur = ex.store.get(k, 0)
    new = ex.iops.binop("-", cur, 1, 64, True)
    ex.write(k, new)
    neg = ex.iops.binop("<", new, 0, 64, True)
    ex.panic_if(simp_bool(neg) if is_term(neg) else neg, "sync: negative WaitGroup counter")
    event(ex, "wg_done", wg=k)
    return ()


def wg_wait(ex, args, ins):
    k = _wgkey(args[0])
    cur = ex.store.get(k, 0)
    event(ex, "wg_wait", wg=k, counter=cur)
    nz = ex.iops.binop("!=", cur, 0, 64, True)
    if nz is not False:
        from .exec import Obligation
        ex.ctx.obligations.append(Obligation("deadlock: WaitGroup.Wait with counter != 0 after all goroutines finished",
                                             b_and(ex.guard, nz), "assert", ins.get("pos", "") if ins else ""))
    return ()


# ---------------------------------------------------------------- channels
def make_chan(ex, size):
    if is_term(size):
        s = z3.simplify(size)
        if not (z3.is_bv_value(s) or z3.is_int_value(s)):
            # symbolic capacity: keep the term, sends compare against it
            cid = ex.next_obj
            ex.next_obj += 1
            ex.write(("C", cid), ())
            ex.write(("Cclosed", cid), False)
            return Chan(cid, size)
        size = s.as_long()
    cid = ex.next_obj
    ex.next_obj += 1
    ex.write(("C", cid), ())
    ex.write(("Cclosed", cid), False)
    return Chan(cid, size)


def _chan(ch):
    if ch is None:
        raise Unsupported("nil channel operation")
    if not isinstance(ch, Chan):
        raise Unsupported("guarded channel value")
    return ch


def chan_send(ex, ch, v, ins):
    from .exec import Obligation
    ch = _chan(ch)
    q = ex.store[("C", ch.id)]
    if ex.store[("Cclosed", ch.id)]:
        ex.panic_if(True, "send on closed channel")
    cap = ch.cap
    if not (not is_term(cap) and cap == 0):
        full = ex.iops.binop(">=", len(q), cap, 64, True)
        if full is not False:
            ex.ctx.obligations.append(Obligation("deadlock: send on full buffered channel (cap %s, %d queued)" % (cap, len(q)),
                                                 b_and(ex.guard, full), "assert", ins.get("pos", "")))
    ex.write(("C", ch.id), q + ((v, ex.task),))
    event(ex, "send", chan=ch.id)


def chan_recv(ex, ch, ins):
    from .exec import Obligation
    ch = _chan(ch)
    q = ex.store[("C", ch.id)]
    commaok = ins.get("commaok")
    if not q:
        if ex.store[("Cclosed", ch.id)]:
            z = ex.zero_value(ins["type"]) if not commaok else None
            if commaok:
                elems = ex.prog.types[ins["type"]]["elems"]
                return (ex.zero_value(elems[0]), False)
            return z
        ex.ctx.obligations.append(Obligation("deadlock: receive on empty channel after all senders finished",
                                             ex.guard, "assert", ins.get("pos", "")))
        raise PathDead()
    pol = ex.ctx.params.get("recv_order", "fifo")
    if pol == "fifo":
        i = 0
    elif pol == "lifo":
        i = len(q) - 1
    else:
        rng = ex.ctx.params["rng"]
        i = rng.randrange(len(q))
    v = q[i][0]
    ex.write(("C", ch.id), q[:i] + q[i + 1:])
    event(ex, "recv", chan=ch.id, sender=q[i][1])
    if commaok:
        return (v, True)
    return v


def chan_close(ex, ch):
    from .exec import Obligation
    ch = _chan(ch)
    if ex.store[("Cclosed", ch.id)]:
        ex.panic_if(True, "close of closed channel")
    # schedule-independent protocol condition: every send by another goroutine must happen-before the close.
    # It does if the closing goroutine has already received that many values, or has joined the sender (WaitGroup).
    me = ex.task
    evs = ex.events
    recvd = sum(1 for e in evs if e["kind"] == "recv" and e["chan"] == ch.id and e["task"] == me)
    unordered = 0
    for e in evs:
        if e["kind"] == "send" and e["chan"] == ch.id and e["task"] != me:
            s = e["task"]
            ends = [x["seq"] for x in evs if x["kind"] == "end" and x.get("child") == s]
            dones = [x for x in evs if x["kind"] == "wg_done" and x["task"] == s]
            joined = bool(ends) and bool(dones) and any(x["kind"] == "wg_wait" and x["task"] == me and x["seq"] > ends[0] for x in evs)
            if not joined:
                unordered += 1
    if unordered > recvd:
        ex.ctx.obligations.append(Obligation("channel protocol: close may precede a pending send in some schedule (%d sends not ordered before close, %d received)" % (unordered, recvd),
                                             ex.guard, "assert"))
    ex.write(("Cclosed", ch.id), True)


# ---------------------------------------------------------------- maps (concrete keys only)
def make_map(ex):
    mid = ex.next_obj
    ex.next_obj += 1
    ex.write(("M", mid), ())
    return GoMap(mid)


def _mkey(k):
    if isinstance(k, Ptr):
        if k.sym:
            raise Unsupported("map key pointer with symbolic offset")
        return ("ptr", k.obj, k.off)
    if is_term(k) or isinstance(k, Guarded):
        raise Unsupported("symbolic map key")
    return k


def map_update(ex, m, k, v):
    items = ex.store[("M", m.id)]
    kk = _mkey(k)
    out = []
    found = False
    for (k0, kk0, v0) in items:
        if kk0 == kk:
            out.append((k0, kk0, v))
            found = True
        else:
            out.append((k0, kk0, v0))
    if not found:
        out.append((k, kk, v))
    ex.write(("M", m.id), tuple(out))


def map_lookup(ex, m, k, ins):
    items = ex.store[("M", m.id)]
    elem = ex.prog.under(ins["xt"])["elem"]
    if is_term(k):
        # symbolic key over concrete entries: ite chain
        res = ex.zero_value(elem)
        ok = False
        for (k0, kk0, v0) in items:
            c = (k == k0)
            res = ex.vite(c, v0, res, elem)
            ok = b_or(ok, c)
        return (res, ok) if ins["commaok"] else res
    kk = _mkey(k)
    for (k0, kk0, v0) in items:
        if kk0 == kk:
            return (v0, True) if ins["commaok"] else v0
    z = ex.zero_value(elem)
    return (z, False) if ins["commaok"] else z


def map_range(ex, m, ins):
    if isinstance(m, str):
        raise Unsupported("range over string")
    items = list(ex.store[("M", m.id)])
    pol = ex.ctx.params.get("map_order", "insertion")
    if pol == "reverse":
        items.reverse()
    elif pol == "shuffle":
        ex.ctx.params["rng"].shuffle(items)
    return MapIter([(k0, v0) for (k0, kk0, v0) in items])


# ---------------------------------------------------------------- errgroup
class ErrGroup:
    def __init__(self):
        self.err = None


def eg_withcontext(ex, args, ins):
    p = ex.alloc("int", label="errgroup.Group")
    return (p, None)


def eg_setlimit(ex, args, ins):
    event(ex, "eg_setlimit", n=args[1])
    return ()


def eg_go(ex, args, ins):
    g, f = args
    parent = ex.task
    tid = ex.next_task
    ex.next_task += 1
    event(ex, "spawn", child=tid, pos=ins.get("pos", "") if ins else "")
    ex.task = tid
    try:
        ret = ex.call_value(f, [], ins)
    finally:
        ex.task = parent
    event(ex, "end", child=tid)
    if ret and ret[0] is not None:
        k = ("EG", g.obj)
        if ex.store.get(k) is None:
            ex.write(k, ret[0])
    return ()


def eg_wait(ex, args, ins):
    g = args[0]
    event(ex, "eg_wait")
    return (ex.store.get(("EG", g.obj)),)


INTRINSICS = {
    "(*sync.WaitGroup).Add": wg_add,
    "(*sync.WaitGroup).Done": wg_done,
    "(*sync.WaitGroup).Wait": wg_wait,
    "golang.org/x/sync/errgroup.WithContext": eg_withcontext,
    "(*golang.org/x/sync/errgroup.Group).SetLimit": eg_setlimit,
    "(*golang.org/x/sync/errgroup.Group).Go": eg_go,
    "(*golang.org/x/sync/errgroup.Group).Wait": eg_wait,
    "context.Background": lambda ex, args, ins: (None,),
}


# ---------------------------------------------------------------- join analysis (adversarial lazy schedule)
def join_obligations(ex, until_mark="returned", spawner=0):
    """Obligations expressing: when the spawner passes the mark, every goroutine it spawned has finished.
    Decided on the recorded happens-before structure instead of enumerating schedules:
      (1) inside each task the WaitGroup.Done is its last action (after every dynamic call / send),
      (2) the spawner waits (Wait) after the last spawn and before the mark,
      (3) the Adds executed by the spawner before that Wait equal the number of spawned tasks that signal
          Done - fewer lets Wait return early, more blocks forever."""
    from .exec import Obligation
    evs = ex.events
    mark = None
    for e in evs:
        if e["kind"] == "mark" and e.get("label") == until_mark and e["task"] == spawner:
            mark = e["seq"]
            break
    obs = []
    end = mark if mark is not None else len(evs)
    spawns = [e for e in evs[:end] if e["kind"] == "spawn" and e["task"] == spawner]
    if not spawns:
        return obs
    waits = [e for e in evs[:end] if e["kind"] == "wg_wait" and e["task"] == spawner and e["seq"] > spawns[-1]["seq"]]
    if not waits:
        obs.append(Obligation("join: spawner performs WaitGroup.Wait after the last spawn and before returning", True, "assert"))
        return obs
    w = waits[-1]
    wg = w["wg"]
    n_tasks = 0
    for s in spawns:
        tevs = [e for e in evs if e["task"] == s["child"]]
        dones = [e for e in tevs if e["kind"] == "wg_done" and e["wg"] == wg]
        if not dones:
            obs.append(Obligation("join: goroutine spawned at %s signals Done on the awaited WaitGroup" % s.get("pos", ""), s["guard"], "assert"))
            continue
        d = dones[-1]
        later = [e for e in tevs if e["seq"] > d["seq"] and e["kind"] in ("callv", "send", "spawn")]
        obs.append(Obligation("join: Done is the last action of the goroutine spawned at %s" % s.get("pos", ""),
                              s["guard"] if later else False, "assert"))
        one = ex.iops.ite(s["guard"], 1, 0, 64, True)
        n_tasks = ex.iops.binop("+", n_tasks, one, 64, True) if not (n_tasks == 0 and not is_term(one)) or True else one
    adds = 0
    for e in evs[:w["seq"]]:
        if e["kind"] == "wg_add" and e["wg"] == wg and e["task"] == spawner:
            term = ex.iops.ite(e["guard"], e["n"], 0, 64, True)
            adds = ex.iops.binop("+", adds, term, 64, True)
    ne = ex.iops.binop("!=", adds, n_tasks, 64, True)
    obs.append(Obligation("join: Adds by the spawner before Wait equal the number of goroutines to await", b_and(w["guard"], ne) if ne is not False else False, "assert"))
    return obs
