"""Data-race conditions on the access log of one symbolic run (DESIGN C12/O2).

Two accesses conflict when they touch the same cell of the same object from different goroutines and at least one is a
write.  A conflicting pair is harmless only if it is ordered by happens-before:
  * everything the spawner did before `go` happens-before the goroutine,
  * everything a goroutine did before its WaitGroup.Done / channel send happens-before what the waiter does after the
    matching Wait / receive (transitively through nested spawners).
Every other conflicting pair is reported as an obligation (its condition: both path guards hold)."""
from .values import b_and, is_term
from .exec import Obligation


def race_obligations(ex, limit=40):
    evs = ex.events
    log = ex.access_log or []
    parent = {}
    spawn_t = {}
    end_t = {}
    for e in evs:
        if e["kind"] == "spawn":
            parent[e["child"]] = e["task"]
            spawn_t[e["child"]] = e["seq"]
        elif e["kind"] == "end":
            end_t[e["child"]] = e["seq"]
    # release points of a task: (time in the task, kind, key)
    rel = {}
    for e in evs:
        if e["kind"] == "wg_done":
            rel.setdefault(e["task"], []).append((e["seq"], "wg", e["wg"]))
        elif e["kind"] == "send":
            rel.setdefault(e["task"], []).append((e["seq"], "ch", e["chan"]))
    # acquire points: (time, task, kind, key, sender)
    acq = []
    for e in evs:
        if e["kind"] == "wg_wait":
            acq.append((e["seq"], e["task"], "wg", e["wg"], None))
        elif e["kind"] == "recv":
            acq.append((e["seq"], e["task"], "ch", e["chan"], e.get("sender")))
        elif e["kind"] == "eg_wait":
            acq.append((e["seq"], e["task"], "eg", None, None))

    def ancestors(t):
        out = [t]
        while t in parent:
            t = parent[t]
            out.append(t)
        return out

    def hb(a, b):
        """access a (task ta at time ia) happens-before access b (task tb at time ib)?"""
        ta, ia = a[0], a[6]
        tb, ib = b[0], b[6]
        if ta == tb:
            return ia <= ib
        # spawner before spawn
        if ta in ancestors(tb):
            # find the child of ta on the path to tb
            path = ancestors(tb)
            child = path[path.index(ta) - 1]
            if ia <= spawn_t.get(child, -1):
                return True
        # release/acquire: ta released (after a) and tb (or an ancestor of tb, before b in its own time... conservatively tb itself
        # or an ancestor acting before spawning tb's chain) acquired it
        for (rt, kind, key) in rel.get(ta, []):
            if rt < ia:
                continue
            for (at, tk, k2, key2, sender) in acq:
                if k2 != kind or key2 != key or at < rt:
                    continue
                if kind == "ch" and sender is not None and sender != ta:
                    continue
                if tk == tb and at <= ib:
                    return True
                if tk in ancestors(tb) and tk != tb:
                    path = ancestors(tb)
                    child = path[path.index(tk) - 1]
                    if at <= spawn_t.get(child, -1):
                        return True
        # errgroup: goroutine end happens-before Wait
        if ta in end_t:
            for (at, tk, k2, key2, sender) in acq:
                if k2 == "eg" and at >= end_t[ta] and tk == tb and at <= ib:
                    return True
        # transitivity through the spawner of ta: if ta's spawner joined ta and then ... (one level)
        pa = parent.get(ta)
        if pa is not None and pa != tb:
            # ta joined by pa at time j; pa's "virtual access" at j happens-before b?
            for (rt, kind, key) in rel.get(ta, []):
                if rt < ia:
                    continue
                for (at, tk, k2, key2, sender) in acq:
                    if tk == pa and k2 == kind and key2 == key and at >= rt and (kind != "ch" or sender in (None, ta)):
                        if hb((pa, True, None, None, None, False, at), b):
                            return True
        return False

    by_cell = {}
    for a in log:
        task, g, oid, off, n, w, t = a
        if g is False:
            continue
        if not isinstance(off, int):
            continue
        for i in range(n):
            by_cell.setdefault((oid, off + i), []).append(a)
    obs = []
    seen = set()
    checked = 0
    for cell, accs in by_cell.items():
        tasks = set(a[0] for a in accs)
        if len(tasks) < 2 or not any(a[5] for a in accs):
            continue
        ws = [a for a in accs if a[5]]
        for wa in ws:
            for b in accs:
                if b[0] == wa[0]:
                    continue
                checked += 1
                if hb(wa, b) or hb(b, wa):
                    continue
                lab = ex.objs.get(cell[0], {}).get("label", "?")
                key = (lab, min(wa[0], b[0]) if False else 0, wa[5] and b[5])
                if key in seen:
                    continue
                seen.add(key)
                obs.append(Obligation("data race: goroutines %d and %d access object '%s' (%s) without ordering" %
                                      (wa[0], b[0], lab, "write/write" if b[5] else "write/read"), b_and(wa[1], b[1]), "assert"))
                if len(obs) >= limit:
                    return obs, checked
    return obs, checked
