"""Semantics of non-terminator SSA instructions."""
import z3
from .values import (Unsupported, PathDead, Ptr, Slice, Iface, Closure, Builtin, Chan, GoMap, MapIter, Guarded,
                     is_term, is_conc_int, b_and, b_or, b_not, b_term, simp_bool, cases_of)
from .iops import norm


def step(ex, fr, ins):
    op = ins["op"]
    h = HANDLERS.get(op)
    if h is None:
        raise Unsupported("instruction " + op)
    r = h(ex, fr, ins)
    if "name" in ins:
        ex.setreg(fr, ins["name"], r)


def i_alloc(ex, fr, ins):
    return ex.alloc(ins["elem"], label=ins.get("comment", ""))


def as_bool_term(v):
    return b_term(v)


def ptr_eq(ex, a, b):
    """symbolic equality of pointer-like values"""
    res = False
    for ga, pa in cases_of(a):
        for gb, pb in cases_of(b):
            if pa is None or pb is None:
                same = pa is None and pb is None
            elif isinstance(pa, Ptr) and isinstance(pb, Ptr):
                if pa.sym or pb.sym:
                    if pa.obj != pb.obj:
                        same = False
                    else:
                        raise Unsupported("comparison of pointers with symbolic offsets")
                else:
                    same = pa.obj == pb.obj and pa.off == pb.off
            elif isinstance(pa, Iface) and isinstance(pb, Iface):
                if pa.tid != pb.tid:
                    same = False
                else:
                    same = ptr_eq(ex, pa.val, pb.val) if not is_conc_int(pa.val) else pa.val == pb.val
            elif isinstance(pa, (Chan, GoMap)) and isinstance(pb, (Chan, GoMap)):
                same = pa.id == pb.id
            elif isinstance(pa, Slice) or isinstance(pb, Slice):
                # only comparison with nil is legal
                s = pa if isinstance(pa, Slice) else pb
                same = s.ptr is None
            elif isinstance(pa, Iface) or isinstance(pb, Iface):
                same = False
            elif isinstance(pa, Closure) or isinstance(pb, Closure):
                same = False
            else:
                same = pa == pb
            if same is True:
                res = b_or(res, b_and(ga, gb))
            elif same is not False:
                res = b_or(res, b_and(ga, gb, same))
    return res


def i_binop(ex, fr, ins):
    p = ex.prog
    op = ins["bop"]
    a = ex.val(fr, ins["x"])
    b = ex.val(fr, ins["y"])
    xt = ins["xt"]
    k = p.kind(xt)
    if k == "nil":
        k = p.kind(ins["yt"])
        xt = ins["yt"]
    if k == "int" and (isinstance(a, tuple) or isinstance(b, tuple)):
        from .iohash import cell_equal
        if op == "==":
            return cell_equal(a, b)
        if op == "!=":
            return b_not(cell_equal(a, b))
        raise Unsupported("arithmetic on structural byte")
    if k == "int":
        w, signed = p.int_info(xt)
        if op in ("<<", ">>"):
            # shift count has its own type; negative signed count panics
            yi = p.int_info(ins["yt"])
            if yi and yi[1]:
                if is_term(b):
                    ex.panic_if(b < 0, "negative shift amount")
                elif b < 0:
                    ex.panic_if(True, "negative shift amount")
        if op in ("/", "%"):
            if is_term(b):
                ex.panic_if(b == 0, "integer divide by zero", ins.get("pos", ""))
            elif b == 0:
                ex.panic_if(True, "integer divide by zero", ins.get("pos", ""))
        return ex.iops.binop(op, a, b, w, signed, ins.get("pos", ""))
    if k == "bool":
        if op == "==":
            if isinstance(a, bool) and isinstance(b, bool):
                return a == b
            return simp_bool(b_term(a) == b_term(b))
        if op == "!=":
            if isinstance(a, bool) and isinstance(b, bool):
                return a != b
            return simp_bool(b_term(a) != b_term(b))
        raise Unsupported("bool binop " + op)
    if k == "string":
        if is_term(a) or is_term(b):
            raise Unsupported("symbolic string op")
        return {"+": lambda: a + b, "==": lambda: a == b, "!=": lambda: a != b, "<": lambda: a < b,
                "<=": lambda: a <= b, ">": lambda: a > b, ">=": lambda: a >= b}[op]()
    if k == "float":
        fa, fb = float(a), float(b)
        if op == "/" and fb == 0.0:
            # IEEE-754 semantics of Go floats: no panic
            if fa == 0.0 or fa != fa:
                return float("nan")
            return float("inf") if fa > 0 else float("-inf")
        return {"+": lambda: fa + fb, "-": lambda: fa - fb, "*": lambda: fa * fb, "/": lambda: fa / fb,
                "==": lambda: fa == fb, "!=": lambda: fa != fb, "<": lambda: fa < fb,
                "<=": lambda: fa <= fb, ">": lambda: fa > fb, ">=": lambda: fa >= fb}[op]()
    if k in ("pointer", "interface", "slice", "chan", "map", "func"):
        e = ptr_eq(ex, a, b)
        if op == "==":
            return e
        if op == "!=":
            return b_not(e)
        raise Unsupported("pointer binop " + op)
    if k in ("array", "struct", "opaque"):
        if k == "opaque":
            dom = p.opaque[p.unalias(xt)]
            e = dom.equal(ex, a, b)
        else:
            lay = p.layout(xt)
            e = True
            for t, x, y in zip(lay, a, b):
                kk = p.kind(t)
                if kk == "int":
                    w, s = p.int_info(t)
                    e = b_and(e, ex.iops.binop("==", x, y, w, s))
                elif kk == "bool":
                    e = b_and(e, x == y if isinstance(x, bool) and isinstance(y, bool) else b_term(x) == b_term(y))
                elif kk == "opaque":
                    e = b_and(e, p.opaque[p.unalias(t)].equal(ex, x, y))
                else:
                    e = b_and(e, ptr_eq(ex, x, y))
        if op == "==":
            return e
        if op == "!=":
            return b_not(e)
    raise Unsupported("binop %s on %s" % (op, xt))


def i_unop(ex, fr, ins):
    p = ex.prog
    op = ins["uop"]
    x = ex.val(fr, ins["x"])
    if op == "*":
        return ex.load(x, ins["type"])
    if op == "!":
        return b_not(x)
    if op == "-":
        k = p.kind(ins["type"])
        if k == "float":
            return -x
        w, s = p.int_info(ins["type"])
        return ex.iops.neg(x, w, s)
    if op == "^":
        w, s = p.int_info(ins["type"])
        return ex.iops.bitnot(x, w, s)
    if op == "<-":
        from .conc import chan_recv
        return chan_recv(ex, x, ins)
    raise Unsupported("unop " + op)


def i_call(ex, fr, ins):
    return ex.do_call(fr, ins)


def i_go(ex, fr, ins):
    from .conc import spawn
    return spawn(ex, fr, ins)


def i_defer(ex, fr, ins):
    call = ins["call"]
    args = [ex.val(fr, a) for a in call["args"]]
    extra = None
    if call["mode"] == "invoke":
        extra = ex.val(fr, call["recv"])
    elif call["mode"] == "dynamic":
        extra = ex.val(fr, call["value"])
    elif "closure" in call:
        extra = ex.val(fr, call["closure"])
    k = ("D", fr.id)
    ex.write(k, ex.store.get(k, ()) + ((ins, tuple(args), extra),))
    return None


def i_rundefers(ex, fr, ins):
    k = ("D", fr.id)
    pending = ex.store.get(k, ())
    ex.write(k, ())
    for (dins, args, extra) in reversed(pending):
        call = dins["call"]
        args = list(args)
        if call["mode"] == "static":
            ex.call_function(call["fn"], args, dins, extra.bindings if extra is not None else ())
        elif call["mode"] == "invoke":
            iv = extra
            hv = getattr(iv.val, "invoke", None) if iv is not None else None
            if hv is not None:
                hv(ex, call["method"], args, dins)
            else:
                fn = ex.prog.itabs.get(iv.tid, {}).get(call["method"])
                if fn is None:
                    raise Unsupported("deferred invoke of %s" % call["method"])
                ex.call_function(fn, [iv.val] + args, dins)
        else:
            ex.call_value(extra, args, dins)
    return None


def i_identity(ex, fr, ins):
    return ex.val(fr, ins["x"])


def i_convert(ex, fr, ins):
    p = ex.prog
    x = ex.val(fr, ins["x"])
    ft, tt = ins["xt"], ins["type"]
    fk, tk = p.kind(ft), p.kind(tt)
    if fk == "int" and tk == "int":
        fw, fs = p.int_info(ft)
        tw, ts = p.int_info(tt)
        return ex.iops.convert(x, fw, fs, tw, ts)
    if fk == "int" and tk == "float":
        if is_term(x):
            raise Unsupported("symbolic int to float")
        return float(x)
    if fk == "float" and tk == "int":
        tw, ts = p.int_info(tt)
        return norm(int(x), tw, ts)
    if fk == "float" and tk == "float":
        return x
    if fk == "string" and tk == "slice" and isinstance(x, tuple) and x and x[0] == "symstr":
        cells = list(x[1])
        ptr = ex.alloc("uint8", label="[]byte(string)", cells=cells, count=len(cells))
        return Slice(ptr, len(cells), len(cells), p.under(tt)["elem"])
    if fk == "string" and tk == "slice":
        bs = x.encode() if isinstance(x, str) else bytes(x)
        ptr = ex.alloc("uint8", label="[]byte(string)", cells=list(bs), count=len(bs)) if len(bs) else None
        if ptr is None:
            ptr = ex.alloc("uint8", label="[]byte(string)", cells=[], count=0)
        return Slice(ptr, len(bs), len(bs), p.under(tt)["elem"])
    if fk == "slice" and tk == "string":
        n = x.len
        if is_term(n):
            raise Unsupported("string of symbolic length")
        bs = [ex.load(Ptr(x.ptr.obj, x.ptr.off + i), "uint8") for i in range(n)] if n else []
        if any(is_term(b) for b in bs):
            return ("symstr", tuple(bs))
        return bytes(bs).decode("latin-1")
    if fk == "int" and tk == "string":
        return chr(x)
    if fk == "pointer" and tk == "pointer":
        return x
    if fk == tk:
        return x
    raise Unsupported("convert %s -> %s" % (ft, tt))


def i_extract(ex, fr, ins):
    t = ex.val(fr, ins["tuple"])
    return t[ins["index"]]


def i_field(ex, fr, ins):
    x = ex.val(fr, ins["x"])
    off, ft = ex.prog.field_off(ins["xt"], ins["field"])
    n = ex.prog.ncells(ft)
    return ex.from_cells(list(x[off:off + n]), ft)


def map_ptr(ex, pv, f, what="pointer operation"):
    cs = cases_of(pv)
    out = []
    for g, q in cs:
        if q is None:
            ex.panic_if(g, "nil pointer dereference (%s)" % what)
            continue
        out.append((g, f(q)))
    if not out:
        from .values import PathDead
        raise PathDead()
    if len(out) == 1 and out[0][0] is True:
        return out[0][1]
    return Guarded(out)


def i_fieldaddr(ex, fr, ins):
    x = ex.val(fr, ins["x"])
    st = ex.prog.under(ins["xt"])["elem"]
    off, ft = ex.prog.field_off(st, ins["field"])

    def f(q):
        if q is None:
            ex.panic_if(True, "nil pointer dereference (field address)", ins.get("pos", ""))
        return Ptr(q.obj, q.off + off, q.sym, ft)
    if x is None:
        ex.panic_if(True, "nil pointer dereference (field address)", ins.get("pos", ""))
    return map_ptr(ex, x, f)


def index_ptr(ex, base, idx, stride, count, elem, pos, what, g=True):
    """pointer to element idx of the array starting at base (count elements)"""
    if is_term(idx):
        idx_s = simp_bool  # placeholder to keep linters quiet
        idx = z3.simplify(idx)
        if z3.is_bv_value(idx) or z3.is_int_value(idx):
            idx = idx.as_long()
    if is_term(idx):
        if z3.is_bv(idx):
            if not is_term(count) and count >= (1 << idx.size()):
                inb = True
            else:
                inb = z3.ULT(idx, z3.BitVecVal(count, idx.size())) if not is_term(count) else z3.ULT(idx, count)
        else:
            inb = z3.And(idx >= 0, idx < count)
        inb = simp_bool(inb) if not isinstance(inb, bool) else inb
        ex.panic_if(b_and(g, b_not(inb)), "index out of range (%s)" % what, pos)
        if is_term(count):
            raise Unsupported("symbolic index with symbolic length")
        return Ptr(base.obj, base.off, base.sym + ((idx, stride, count),), elem)
    if is_term(count):
        if z3.is_bv(count):
            ex.panic_if(b_and(g, simp_bool(b_not(z3.ULT(z3.BitVecVal(idx, count.size()), count)))), "index out of range (%s)" % what, pos)
        else:
            ex.panic_if(b_and(g, simp_bool(b_not(idx < count))), "index out of range (%s)" % what, pos)
    elif idx < 0 or idx >= count:
        ex.panic_if(g, "index %d out of range [0,%d) (%s)" % (idx, count, what), pos)
        return None
    return Ptr(base.obj, base.off + idx * stride, base.sym, elem)


def i_indexaddr(ex, fr, ins):
    p = ex.prog
    x = ex.val(fr, ins["x"])
    idx = ex.val(fr, ins["index"])
    xd = p.under(ins["xt"])
    pos = ins.get("pos", "")
    if xd["kind"] == "slice":
        elem = xd["elem"]
        stride = p.ncells(elem)
        outs = []
        for g, s in cases_of(x):
            if s.ptr is None:
                if g is True:
                    ex.panic_if(True, "index of nil/empty slice", pos)
                ex.panic_if(g, "index of nil/empty slice", pos)
                continue
            q = index_ptr(ex, s.ptr, idx, stride, s.len, elem, pos, "slice", g)
            if q is not None:
                outs.append((g, q))
        if not outs:
            from .values import PathDead
            raise PathDead()
        if len(outs) == 1:
            return outs[0][1]
        return Guarded(outs)
    # pointer to array
    ad = p.under(xd["elem"])
    elem = ad["elem"]
    stride = p.ncells(elem)
    n = ad["len"]
    if x is None:
        ex.panic_if(True, "nil array pointer", pos)
    r = map_ptr(ex, x, lambda q: index_ptr(ex, q, idx, stride, n, elem, pos, "array"))
    if r is None:
        from .values import PathDead
        raise PathDead()
    return r


def i_index(ex, fr, ins):
    p = ex.prog
    x = ex.val(fr, ins["x"])
    idx = ex.val(fr, ins["index"])
    xd = p.under(ins["xt"])
    dom = getattr(x, "dom", None)
    if dom is not None and hasattr(dom, "limb") and not is_term(idx):
        return dom.limb(x, idx, ex.ctx)
    if xd["kind"] == "array":
        elem = xd["elem"]
        st = p.ncells(elem)
        if is_term(idx):
            raise Unsupported("symbolic Index on array value")
        if idx < 0 or idx >= xd["len"]:
            ex.panic_if(True, "index out of range (array value)")
        return ex.from_cells(list(x[idx * st:(idx + 1) * st]), elem)
    if p.kind(ins["xt"]) == "string":
        if is_term(idx):
            raise Unsupported("symbolic string index")
        return x.encode("latin-1")[idx] if isinstance(x, str) else x[idx]
    raise Unsupported("Index on " + ins["xt"])


def i_slice(ex, fr, ins):
    p = ex.prog
    x = ex.val(fr, ins["x"])
    lo = ex.val(fr, ins["low"]) if ins["low"] is not None else 0
    hi = ex.val(fr, ins["high"]) if ins["high"] is not None else None
    mx = ex.val(fr, ins["max"]) if ins["max"] is not None else None
    xd = p.under(ins["xt"])
    pos = ins.get("pos", "")
    io = ex.iops

    def le(a, b):
        return io.binop("<=", a, b, 64, True)

    def mk(base, ln, cap, elem):
        stride = p.ncells(elem)
        h = hi if hi is not None else ln
        m = mx if mx is not None else cap
        bad = b_or(b_not(le(0, lo)), b_not(le(lo, h)), b_not(le(h, m)), b_not(le(m, cap)))
        bad = simp_bool(bad)
        ex.panic_if(bad, "slice bounds out of range", pos)
        nl = io.binop("-", h, lo, 64, True)
        nc = io.binop("-", m, lo, 64, True)
        if is_term(lo):
            if base is None:
                return Slice(None, nl, nc, elem)
            cnt = cap + 1 if not is_term(cap) else None
            if cnt is None:
                raise Unsupported("symbolic slice low bound with symbolic capacity")
            nb = Ptr(base.obj, base.off, base.sym + ((lo, stride, cnt),), elem)
        else:
            nb = None if base is None else Ptr(base.obj, base.off + lo * stride, base.sym, elem)
        return Slice(nb, nl, nc, elem)

    if xd["kind"] == "slice":
        outs = [(g, mk(s.ptr, s.len, s.cap, xd["elem"])) for g, s in cases_of(x)]
        if len(outs) == 1:
            return outs[0][1]
        return Guarded(outs)
    if xd["kind"] == "pointer":
        ad = p.under(xd["elem"])
        if x is None:
            ex.panic_if(True, "slice of nil array pointer", pos)
        return map_ptr(ex, x, lambda q: mk(q, ad["len"], ad["len"], ad["elem"]))
    if p.kind(ins["xt"]) == "string":
        return x[lo:hi]
    raise Unsupported("Slice on " + ins["xt"])


def i_makeslice(ex, fr, ins):
    p = ex.prog
    ln = ex.val(fr, ins["len"])
    cap = ex.val(fr, ins["cap"])
    elem = p.under(ins["type"])["elem"]
    if is_term(cap):
        cap = z3.simplify(cap)
        if z3.is_bv_value(cap) or z3.is_int_value(cap):
            cap = cap.as_long()
    if is_term(ln):
        ln2 = z3.simplify(ln)
        if z3.is_bv_value(ln2) or z3.is_int_value(ln2):
            ln = ln2.as_long()
    if is_term(cap):
        mx = ex.ctx.params.get("max_make")
        if mx is None:
            raise Unsupported("make with symbolic size (%s)" % ins.get("pos", ""))
        ex.panic_if(simp_bool(ex.iops.binop("<", cap, 0, 64, True)), "makeslice: len out of range")
        ex.ctx.obligations.append(_mk_bound_obl(ex, cap, mx, ins))
        ptr = ex.alloc(elem, label="make@" + ins.get("pos", ""), count=mx)
        return Slice(ptr, ln, cap, elem)
    if cap < 0 or (not is_term(ln) and (ln < 0 or ln > cap)):
        ex.panic_if(True, "makeslice: len out of range")
    ptr = ex.alloc(elem, label="make@" + ins.get("pos", ""), count=cap)
    return Slice(ptr, ln, cap, elem)


def _mk_bound_obl(ex, cap, mx, ins):
    from .exec import Obligation
    return Obligation("unwinding/size bound: make size <= %d at %s" % (mx, ins.get("pos", "")),
                      b_and(ex.guard, ex.iops.binop(">", cap, mx, 64, True)), "unwind")


def i_makeclosure(ex, fr, ins):
    fn = ins["fn"]["n"]
    return Closure(fn, [ex.val(fr, b) for b in ins["bindings"]])


def i_makeinterface(ex, fr, ins):
    return Iface(ex.prog.unalias(ins["xt"]), ex.val(fr, ins["x"]))


def i_typeassert(ex, fr, ins):
    p = ex.prog
    x = ex.val(fr, ins["x"])
    at = p.unalias(ins["asserted"])
    cs = cases_of(x)
    if len(cs) != 1:
        raise Unsupported("type assertion on guarded interface")
    iv = cs[0][1]
    ad = p.under(at)
    if ad["kind"] == "interface" :
        ok = iv is not None and all(m in p.itabs.get(iv.tid, {}) or hasattr(iv.val, "invoke") for m in ad["methods"])
        res = iv if ok else None
    else:
        ok = iv is not None and iv.tid == at
        res = iv.val if ok else ex.zero_value(at)
    if ins["commaok"]:
        return (res, ok)
    if not ok:
        ex.panic_if(True, "failed type assertion to " + at, ins.get("pos", ""))
    return res


def i_store(ex, fr, ins):
    addr = ex.val(fr, ins["addr"])
    v = ex.val(fr, ins["val"])
    ex.store_to(addr, v, ins["vt"])
    return None


def i_slice2arrptr(ex, fr, ins):
    p = ex.prog
    s = ex.val(fr, ins["x"])
    n = p.under(p.under(ins["type"])["elem"])["len"]
    if is_term(s.len):
        ex.panic_if(simp_bool(ex.iops.binop("<", s.len, n, 64, True)), "slice to array pointer: length too short")
    elif s.len < n:
        ex.panic_if(True, "slice to array pointer: length too short")
    return s.ptr


def i_makechan(ex, fr, ins):
    from .conc import make_chan
    return make_chan(ex, ex.val(fr, ins["size"]))


def i_send(ex, fr, ins):
    from .conc import chan_send
    chan_send(ex, ex.val(fr, ins["chan"]), ex.val(fr, ins["x"]), ins)
    return None


def i_makemap(ex, fr, ins):
    from .conc import make_map
    return make_map(ex)


def i_mapupdate(ex, fr, ins):
    from .conc import map_update
    map_update(ex, ex.val(fr, ins["map"]), ex.val(fr, ins["key"]), ex.val(fr, ins["value"]))
    return None


def i_lookup(ex, fr, ins):
    from .conc import map_lookup
    x = ex.val(fr, ins["x"])
    if isinstance(x, GoMap):
        return map_lookup(ex, x, ex.val(fr, ins["index"]), ins)
    raise Unsupported("Lookup on non-map")


def i_range(ex, fr, ins):
    from .conc import map_range
    return map_range(ex, ex.val(fr, ins["x"]), ins)


def i_next(ex, fr, ins):
    it = ex.val(fr, ins["iter"])
    if it.pos >= len(it.items):
        return (False, None, None)
    k, v = it.items[it.pos]
    it.pos += 1
    return (True, k, v)


HANDLERS = {
    "Alloc": i_alloc, "BinOp": i_binop, "UnOp": i_unop, "Call": i_call, "Go": i_go, "Defer": i_defer,
    "RunDefers": i_rundefers, "ChangeInterface": i_identity, "ChangeType": i_identity, "Convert": i_convert,
    "Extract": i_extract, "Field": i_field, "FieldAddr": i_fieldaddr, "IndexAddr": i_indexaddr, "Index": i_index,
    "Slice": i_slice, "MakeSlice": i_makeslice, "MakeClosure": i_makeclosure, "MakeInterface": i_makeinterface,
    "TypeAssert": i_typeassert, "Store": i_store, "SliceToArrayPointer": i_slice2arrptr, "MakeChan": i_makechan,
    "Send": i_send, "MakeMap": i_makemap, "MapUpdate": i_mapupdate, "Lookup": i_lookup, "Range": i_range,
    "Next": i_next,
}
