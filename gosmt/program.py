"""Loaded SSA program: types, layouts, CFG analyses."""
import json
from .values import Unsupported
from .iops import INT_TYPES

EXIT = -1


class Program:
    def __init__(self, path):
        d = json.load(open(path))
        self.types = d["types"]
        self.funcs = d["funcs"]
        self.globals = d["globals"]
        self.itabs = d["itabs"]
        self.externals = set(d["externals"])
        self.missing_entries = d["missing_entries"]
        for bn in list(INT_TYPES) + ["bool", "string", "float64"]:
            self.types.setdefault(bn, {"kind": "basic", "name": bn})
        self._cfg = {}
        self._lay = {}
        self.opaque = {}     # named type id -> domain object (set by the harness config)
        for f in self.funcs.values():
            if "blocks" in f:
                f["_regtype"] = {}
                for p in f["params"]:
                    f["_regtype"]["p:" + p["name"]] = p["type"]
                for p in f["freevars"]:
                    f["_regtype"]["f:" + p["name"]] = p["type"]
                for b in f["blocks"]:
                    n = 0
                    for ins in b["instrs"]:
                        if ins["op"] == "Phi":
                            n += 1
                        if "name" in ins:
                            f["_regtype"]["r:" + ins["name"]] = ins["type"]
                    b["_nphi"] = n

    # ------------------------------------------------------------------ types
    def desc(self, tid):
        return self.types[tid]

    def under(self, tid):
        d = self.types[tid]
        while d["kind"] in ("named", "alias"):
            tid = d["under"] if d["kind"] == "named" else d["to"]
            d = self.types[tid]
        return d

    def unalias(self, tid):
        d = self.types[tid]
        while d["kind"] == "alias":
            tid = d["to"]
            d = self.types[tid]
        return tid

    def is_opaque(self, tid):
        return self.unalias(tid) in self.opaque

    def int_info(self, tid):
        d = self.under(tid)
        if d["kind"] == "basic" and d["name"] in INT_TYPES:
            return INT_TYPES[d["name"]]
        return None

    def kind(self, tid):
        if self.is_opaque(tid):
            return "opaque"
        d = self.under(tid)
        if d["kind"] == "basic":
            n = d["name"]
            if n in INT_TYPES:
                return "int"
            if n in ("bool", "untyped bool"):
                return "bool"
            if n in ("string", "untyped string"):
                return "string"
            if n in ("float64", "float32", "untyped float"):
                return "float"
            if n == "untyped nil":
                return "nil"
            if n == "unsafe.Pointer":
                return "pointer"
            return n
        return d["kind"]

    def layout(self, tid):
        """returns list of leaf type ids (flat cells)"""
        r = self._lay.get(tid)
        if r is not None:
            return r
        if self.is_opaque(tid):
            r = [self.unalias(tid)]
        else:
            d = self.under(tid)
            k = d["kind"]
            if k == "array":
                e = self.layout(d["elem"])
                r = e * d["len"]
            elif k == "struct":
                r = []
                for f in d["fields"]:
                    r = r + self.layout(f["type"])
            elif k == "tuple":
                raise Unsupported("layout of tuple")
            else:
                r = [tid]
        self._lay[tid] = r
        return r

    def ncells(self, tid):
        return len(self.layout(tid))

    def is_agg(self, tid):
        if self.is_opaque(tid):
            return False
        return self.under(tid)["kind"] in ("array", "struct")

    def field_off(self, struct_tid, idx):
        d = self.under(struct_tid)
        off = 0
        for f in d["fields"][:idx]:
            off += self.ncells(f["type"])
        return off, d["fields"][idx]["type"]

    # ------------------------------------------------------------------ CFG
    def cfg(self, fname):
        c = self._cfg.get(fname)
        if c is not None:
            return c
        f = self.funcs[fname]
        blocks = f["blocks"]
        n = len(blocks)
        succs = {}
        for b in blocks:
            i = b["index"]
            last = b["instrs"][-1]["op"] if b["instrs"] else "Jump"
            if last == "Return":
                succs[i] = [EXIT]
            elif last == "Panic":
                succs[i] = []
            else:
                succs[i] = list(b["succs"])
        succs[EXIT] = []
        preds = {i: [] for i in succs}
        for i, ss in succs.items():
            for s in ss:
                preds[s].append(i)
        # nodes that reach EXIT
        reach = set([EXIT])
        work = [EXIT]
        while work:
            x = work.pop()
            for p in preds[x]:
                if p not in reach:
                    reach.add(p)
                    work.append(p)
        # post-dominators (iterative, on nodes reaching EXIT)
        nodes = [x for x in list(range(n)) + [EXIT] if x in reach]
        pdom = {x: set(nodes) for x in nodes}
        pdom[EXIT] = {EXIT}
        changed = True
        while changed:
            changed = False
            for x in nodes:
                if x == EXIT:
                    continue
                ss = [s for s in succs[x] if s in reach]
                if not ss:
                    continue
                new = set.intersection(*[pdom[s] for s in ss]) | {x}
                if new != pdom[x]:
                    pdom[x] = new
                    changed = True
        ipdom = {}
        for x in nodes:
            if x == EXIT:
                continue
            cand = pdom[x] - {x}
            # the immediate post-dominator is the candidate post-dominated by... all others post-dominate it
            best = None
            for c_ in cand:
                if all((o in pdom[c_]) for o in cand):
                    best = c_
                    break
            ipdom[x] = best
        # blocks in cycles (Tarjan SCC)
        incycle = set()
        index = {}
        low = {}
        stack = []
        onstack = set()
        counter = [0]

        def strong(v):
            work = [(v, 0)]
            while work:
                v, pi = work.pop()
                if pi == 0:
                    index[v] = low[v] = counter[0]
                    counter[0] += 1
                    stack.append(v)
                    onstack.add(v)
                recurse = False
                ss = [s for s in succs[v] if s != EXIT]
                for j in range(pi, len(ss)):
                    w = ss[j]
                    if w not in index:
                        work.append((v, j + 1))
                        work.append((w, 0))
                        recurse = True
                        break
                    elif w in onstack:
                        low[v] = min(low[v], index[w])
                if recurse:
                    continue
                if low[v] == index[v]:
                    comp = []
                    while True:
                        w = stack.pop()
                        onstack.discard(w)
                        comp.append(w)
                        if w == v:
                            break
                    if len(comp) > 1 or v in succs[v]:
                        incycle.update(comp)
                if work:
                    u = work[-1][0]
                    low[u] = min(low[u], low[v])

        for v in range(n):
            if v not in index:
                strong(v)
        c = {"ipdom": ipdom, "reach": reach, "incycle": incycle, "succs": succs}
        self._cfg[fname] = c
        return c
