"""Domain G: group elements as formal linear combinations of generator symbols (DESIGN 3.4)."""
import z3
from .values import Unsupported, Ptr, Slice, is_term, b_and, b_or, b_not, simp_bool


class GVal:
    """coeffs: {generator name: coefficient}; coefficient = python int or z3 term (BitVec of dom.width or Int)"""
    __slots__ = ("coeffs", "dom")

    def __init__(self, coeffs, dom):
        self.coeffs = coeffs
        self.dom = dom

    def __repr__(self):
        return "G(%s)" % ",".join("%s" % k for k in self.coeffs)


class GDom:
    def __init__(self, sort="bv", width=64, levels=False):
        self.sort = sort
        self.width = width
        self.levels = levels    # formal doubling: generator keys are (name, level); Double shifts the level

    def double(self, a):
        if not self.levels:
            return self.add(a, a)
        return GVal({(k[0], k[1] + 1): v for k, v in a.coeffs.items()}, self)

    def term(self, v):
        if is_term(v):
            return v
        if self.sort == "bv":
            return z3.BitVecVal(v, self.width)
        if self.sort == "real":
            return z3.RealVal(v)
        return z3.IntVal(v)

    def zero(self, tid=None):
        return GVal({}, self)

    def gen(self, name, coeff=1):
        return GVal({name: coeff}, self)

    def add(self, a, b, sign=1):
        out = dict(a.coeffs)
        for k, v in b.coeffs.items():
            o = out.get(k, 0)
            if is_term(o) or is_term(v):
                out[k] = (self.term(o) + self.term(v)) if sign == 1 else (self.term(o) - self.term(v))
            else:
                out[k] = o + sign * v
        return GVal(out, self)

    def neg(self, a):
        return GVal({k: (-v) for k, v in a.coeffs.items()}, self)

    def scale(self, a, s):
        out = {}
        for k, v in a.coeffs.items():
            if is_term(v) or is_term(s):
                out[k] = self.term(v) * self.term(s)
            else:
                out[k] = v * s
        return GVal(out, self)

    def ite(self, c, a, b):
        out = {}
        for k in set(a.coeffs) | set(b.coeffs):
            x, y = a.coeffs.get(k, 0), b.coeffs.get(k, 0)
            if not is_term(x) and not is_term(y) and x == y:
                out[k] = x
            else:
                out[k] = z3.If(c, self.term(x), self.term(y))
        return GVal(out, self)

    def same(self, ex, a, b):
        r = True
        for k in set(a.coeffs) | set(b.coeffs):
            x, y = a.coeffs.get(k, 0), b.coeffs.get(k, 0)
            if not is_term(x) and not is_term(y):
                if x != y:
                    return False
                continue
            r = b_and(r, simp_bool(self.term(x) == self.term(y)))
        return r

    equal = same

    def from_dump(self, ex, j, tid):
        raise Unsupported("group element global without an override")
