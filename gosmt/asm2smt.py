"""Plan 9 amd64 subset -> SMT terms (DESIGN 3.2): symbolic execution of the text of the repository's .s files.

Two encodings: 'bv' (64-bit bit-vectors, for the add/sub/... routines) and 'int' (integers with fresh-variable
definitions and abstract 64x64 products, for the Montgomery routines; shares the math/bits models of stdlib.py)."""
import re
import z3
from .values import Unsupported, is_term, b_and, b_not
from . import stdlib
from .exec import Ctx

W = 1 << 64


def parse(path):
    """returns (texts: {name: [instr]}, data: {sym: {off: value}})"""
    raw = open(path).read()
    # join continuation lines of macros
    raw = raw.replace("\\\n", " ")
    macros = {}
    data = {}
    texts = {}
    cur = None
    for line in raw.split("\n"):
        line = line.split("//")[0].strip()
        if not line or line.startswith("#include"):
            continue
        m = re.match(r"#define\s+(\w+)\(([^)]*)\)\s+(.*)", line)
        if m:
            macros[m.group(1)] = ([a.strip() for a in m.group(2).split(",")], [x.strip() for x in m.group(3).split(";") if x.strip()])
            continue
        m = re.match(r"DATA\s+(\S+?)<>(?:\+(\d+))?\(SB\)/8,\s*\$(\S+)", line)
        if m:
            data.setdefault(m.group(1), {})[int(m.group(2) or 0)] = int(m.group(3), 0)
            continue
        if line.startswith("GLOBL"):
            continue
        m = re.match(r"TEXT\s+·(\w+)\(SB\)", line)
        if m:
            cur = m.group(1)
            texts[cur] = []
            continue
        if cur is None:
            continue
        m = re.match(r"(\w+)\((.*)\)$", line)
        if m and m.group(1) in macros:
            params, body = macros[m.group(1)]
            args = [a.strip() for a in m.group(2).split(",")]
            for b in body:
                for p_, a in zip(params, args):
                    b = re.sub(r"\b%s\b" % p_, a, b)
                texts[cur].append(b)
            continue
        texts[cur].append(line)
    return texts, data


class Machine:
    def __init__(self, mode, data, args, supportAdx=True):
        self.mode = mode
        self.data = data
        self.regs = {}
        self.CF = 0
        self.OF = 0
        self.ZF = None
        self.args = args          # name -> memory tag
        self.mem = {}             # tag -> list of 4 values
        self.guard = True
        self.ctx = Ctx.__new__(Ctx)
        self.ctx.__dict__.update(dict(prog=None, intmode=mode, facts=[], solver=None, names={}, memo={}, products={}, product_terms={},
                                      mulchain={}, mulwit=[], lemma_candidates=[], obligations=[], stats={}))
        self.ctx.add_fact = lambda f: self.ctx.facts.append(f)
        self.ctx.fresh_name = self.fresh
        self.regs["SP"] = ("ptr", "stack")
        self.unread = {}
        self.supportAdx = supportAdx
        self.calls = []
        self.ninstr = 0

    # --- helpers
    def fresh(self, base):
        n = self.ctx.names.get(base, 0)
        self.ctx.names[base] = n + 1
        return "%s!%d" % (base, n)

    def const(self, v):
        v &= W - 1
        return v

    def val(self, opnd, read=True):
        opnd = opnd.strip()
        if opnd.startswith("$"):
            return int(opnd[1:], 0) & (W - 1)
        m = re.match(r"(\w+)<>(?:\+(\d+))?\(SB\)$", opnd)
        if m:
            return self.data[m.group(1)][int(m.group(2) or 0)]
        m = re.match(r"(\w+)\+(\d+)\(FP\)$", opnd)
        if m:
            return ("ptr", self.args[m.group(1)])
        m = re.match(r"(\d*)\((\w+)\)$", opnd)
        if m:
            base = self.regs[m.group(2)]
            if not (isinstance(base, tuple) and base[0] == "ptr"):
                raise Unsupported("memory operand through non-pointer register " + opnd)
            return self.mem[base[1]][int(m.group(1) or 0) // 8]
        if opnd == "·supportAdx(SB)":
            return 1 if self.supportAdx else 0
        if opnd in self.regs or re.match(r"^[A-Z0-9]+$", opnd):
            if read:
                self.unread.pop(opnd, None)
            return self.regs[opnd]
        raise Unsupported("operand " + opnd)

    def put(self, opnd, v, arith=False):
        opnd = opnd.strip()
        m = re.match(r"(\d*)\((\w+)\)$", opnd)
        if m:
            base = self.regs[m.group(2)]
            self.mem[base[1]][int(m.group(1) or 0) // 8] = v
            return
        if opnd in self.unread:
            t = self.unread.pop(opnd)
            if is_term(t):
                self.ctx.lemma_candidates.append(("register %s overwritten unread (value written by an add-with-carry) is 0" % opnd, True, t))
        self.regs[opnd] = v
        if arith and is_term(v):
            self.unread[opnd] = v

    def addc(self, a, b, c):
        if self.mode == "bv":
            A, B, C = [x if is_term(x) else z3.BitVecVal(x, 64) for x in (a, b, c)]
            s = z3.ZeroExt(1, A) + z3.ZeroExt(1, B) + z3.ZeroExt(1, C)
            return z3.simplify(z3.Extract(63, 0, s)), z3.simplify(z3.ZeroExt(63, z3.Extract(64, 64, s)))
        r = stdlib.bits_add64(self, [a, b, c], None)
        return r

    def subb(self, a, b, c):
        if self.mode == "bv":
            A, B, C = [x if is_term(x) else z3.BitVecVal(x, 64) for x in (a, b, c)]
            s = z3.ZeroExt(1, A) - z3.ZeroExt(1, B) - z3.ZeroExt(1, C)
            return z3.simplify(z3.Extract(63, 0, s)), z3.simplify(z3.ZeroExt(63, z3.Extract(64, 64, s)))
        return stdlib.bits_sub64(self, [a, b, c], None)

    def flag_true(self, f):
        if is_term(f):
            return f == 1
        return bool(f)

    def ite(self, c, a, b):
        if c is True:
            return a
        if c is False:
            return b
        if self.mode == "bv":
            return z3.If(c, a if is_term(a) else z3.BitVecVal(a, 64), b if is_term(b) else z3.BitVecVal(b, 64))
        return z3.If(c, a if is_term(a) else z3.IntVal(a), b if is_term(b) else z3.IntVal(b))

    def clear_flags(self):
        for nm in ("CF", "OF"):
            f = getattr(self, nm)
            if is_term(f):
                self.ctx.lemma_candidates.append(("flag %s cleared unread is 0" % nm, True, f))
            setattr(self, nm, 0)

    # --- execution
    def run(self, instrs):
        labels = {}
        for i, ins in enumerate(instrs):
            if ins.endswith(":"):
                labels[ins[:-1]] = i
        pc = 0
        while pc < len(instrs):
            ins = instrs[pc]
            pc += 1
            if ins.endswith(":") or ins == "NO_LOCAL_POINTERS":
                continue
            self.ninstr += 1
            parts = ins.split(None, 1)
            op = parts[0]
            ops = [x.strip() for x in parts[1].split(",")] if len(parts) > 1 else []
            if op == "RET":
                return
            if op == "MOVQ":
                self.put(ops[1], self.val(ops[0]))
            elif op in ("ADDQ", "ADCQ"):
                c = self.CF if op == "ADCQ" else 0
                lo, cy = self.addc(self.val(ops[1]), self.val(ops[0]), c)
                self.put(ops[1], lo, arith=True)
                self.CF = cy
            elif op in ("SUBQ", "SBBQ"):
                c = self.CF if op == "SBBQ" else 0
                lo, bw = self.subb(self.val(ops[1]), self.val(ops[0]), c)
                self.put(ops[1], lo, arith=True)
                self.CF = bw
            elif op in ("ADCXQ", "ADOXQ"):
                fl = "CF" if op == "ADCXQ" else "OF"
                lo, cy = self.addc(self.val(ops[1]), self.val(ops[0]), getattr(self, fl))
                self.put(ops[1], lo, arith=True)
                setattr(self, fl, cy)
            elif op in ("CMOVQCS", "CMOVQCC"):
                c = self.flag_true(self.CF)
                if op == "CMOVQCC":
                    c = b_not(c) if not isinstance(c, bool) else (not c)
                self.put(ops[1], self.ite(c, self.val(ops[0]), self.val(ops[1])))
            elif op == "XORQ":
                if ops[0] == ops[1]:
                    self.clear_flags()
                    self.put(ops[1], 0)
                else:
                    if self.mode != "bv":
                        raise Unsupported("XORQ of different registers in the integer encoding")
                    a, b = self.val(ops[0]), self.val(ops[1])
                    self.put(ops[1], (a if is_term(a) else z3.BitVecVal(a, 64)) ^ (b if is_term(b) else z3.BitVecVal(b, 64)))
                    self.CF = self.OF = 0
            elif op == "ORQ":
                if self.mode != "bv":
                    raise Unsupported("ORQ in the integer encoding")
                a, b = self.val(ops[0]), self.val(ops[1])
                self.put(ops[1], (a if is_term(a) else z3.BitVecVal(a, 64)) | (b if is_term(b) else z3.BitVecVal(b, 64)))
                self.CF = self.OF = 0
            elif op == "TESTQ":
                a, b = self.val(ops[0]), self.val(ops[1])
                if ops[0] != ops[1]:
                    raise Unsupported("TESTQ of different operands")
                self.ZF = (a == 0) if is_term(a) else (a == 0)
                self.CF = self.OF = 0
            elif op == "CMPB":
                a, b = self.val(ops[0]), self.val(ops[1])
                self.ZF = (a == b)
            elif op in ("JEQ", "JNE"):
                z = self.ZF
                if is_term(z):
                    # symbolic branch: run both continuations and merge registers/memory (only used by neg)
                    return ("branch", z if op == "JEQ" else z3.Not(z), labels[ops[0]], pc)
                take = z if op == "JEQ" else (not z)
                if take:
                    pc = labels[ops[0]]
            elif op == "MULXQ":
                hi, lo = stdlib.bits_mul64(self, [self.val("DX"), self.val(ops[0])], None) if self.mode == "int" else self._bvmul(self.val("DX"), self.val(ops[0]))
                self.put(ops[1], lo)
                self.put(ops[2], hi)
            elif op == "IMULQ":
                a, b = self.val(ops[0]), self.val(ops[1])
                if self.mode == "bv":
                    r = (a if is_term(a) else z3.BitVecVal(a, 64)) * (b if is_term(b) else z3.BitVecVal(b, 64))
                else:
                    if is_term(a) and is_term(b):
                        raise Unsupported("IMULQ of two symbolic values")
                    x, c = (a, b) if is_term(a) else (b, a)
                    if not is_term(x):
                        r = (x * c) % W
                    else:
                        r = z3.Int(self.fresh("imul"))
                        k = z3.Int(self.fresh("imulk"))
                        self.ctx.add_fact(z3.And(r >= 0, r < W, x * c == r + W * k))
                        self.ctx.mulchain[r.get_id()] = (x, c, 64)
                        self.ctx.mulwit.append(r)
                self.put(ops[1], r)
            elif op == "CALL":
                self.calls.append(ops[0])
            else:
                raise Unsupported("mnemonic " + op)
        return None

    def _bvmul(self, a, b):
        A, B = [x if is_term(x) else z3.BitVecVal(x, 64) for x in (a, b)]
        p = z3.ZeroExt(64, A) * z3.ZeroExt(64, B)
        return z3.Extract(127, 64, p), z3.Extract(63, 0, p)

    def finish(self):
        for nm in ("CF", "OF"):
            f = getattr(self, nm)
            if is_term(f) and self.mode == "int":
                self.ctx.lemma_candidates.append(("final flag %s is 0" % nm, True, f))


def run_routine(path, name, mode, arg_layout, alias, inputs, supportAdx=True):
    """arg_layout: ordered pointer argument names, e.g. ['res','x','y'].
    alias: dict argname -> memory tag (arguments mapped to the same tag share memory).
    inputs: dict tag -> list of 4 initial limb values.  returns (machine, final memory)"""
    texts, data = parse(path)
    if name not in texts:
        raise Unsupported("routine %s not found in %s" % (name, path))
    m = Machine(mode, data, {a: alias[a] for a in arg_layout}, supportAdx)
    m.mem = {t: list(v) for t, v in inputs.items()}
    m.mem["stack"] = [None] * 8
    instrs = texts[name]
    r = m.run(instrs)
    if isinstance(r, tuple) and r[0] == "branch":
        # both continuations (straight-line each), merged with ite
        _, cond, target, fall = r
        import copy
        states = []
        for start in (target, fall):
            m2 = Machine(mode, data, m.args, supportAdx)
            m2.regs = dict(m.regs)
            m2.mem = {t: list(v) for t, v in m.mem.items()}
            m2.CF, m2.OF, m2.ZF = m.CF, m.OF, m.ZF
            m2.ctx = m.ctx
            rr = m2.run(instrs[start:])
            if rr is not None:
                raise Unsupported("nested symbolic branch in assembly")
            states.append(m2)
            m.ninstr += m2.ninstr
        for t in m.mem:
            m.mem[t] = [m.ite(cond, a, b) if not (a is b) else a for a, b in zip(states[0].mem[t], states[1].mem[t])]
    m.finish()
    return m
