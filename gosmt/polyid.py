"""Deciding rational-function identities of bounded degree by ground SMT instances.

Two rational functions N1/D1, N2/D2 in the variables x1..xn with total degree bound B of N1*D2 - N2*D1
are identical iff they agree on a grid S^n with |S| = B+1 (where the denominators are non-zero).  For the
univariate case used here: B+1 distinct points.  Every instance is a ground query decided by z3
(substitute + check), so the obligation 'identity' is the conjunction of B+1 unsat ground queries together
with the syntactic degree bound computed from the term DAG."""
import z3


def degree(t, var_ids, memo=None):
    """(numerator degree, denominator degree) bound of a Real term as a rational function of the given variables"""
    if memo is None:
        memo = {}
    k = t.get_id()
    if k in memo:
        return memo[k]
    if z3.is_rational_value(t) or z3.is_int_value(t):
        r = (0, 0)
    elif z3.is_bool(t) or z3.is_bv(t):
        r = (0, 0)
    elif z3.is_const(t):
        r = (1, 0) if k in var_ids else (0, 0)
    else:
        ch = [degree(c, var_ids, memo) for c in t.children()]
        op = t.decl().kind()
        if op == z3.Z3_OP_ADD or op == z3.Z3_OP_SUB:
            d = sum(c[1] for c in ch)
            n = max(c[0] + d - c[1] for c in ch)
            r = (n, d)
        elif op == z3.Z3_OP_MUL:
            r = (sum(c[0] for c in ch), sum(c[1] for c in ch))
        elif op == z3.Z3_OP_DIV:
            r = (ch[0][0] + ch[1][1], ch[0][1] + ch[1][0])
        elif op == z3.Z3_OP_UMINUS or op == z3.Z3_OP_TO_REAL:
            r = ch[0]
        elif op == z3.Z3_OP_ITE:
            r = (max(ch[1][0] + ch[2][1], ch[2][0] + ch[1][1]), ch[1][1] + ch[2][1])
        elif z3.is_bool(t) or z3.is_bv(t) or z3.is_int(t):
            r = (0, 0)     # conditions of piecewise definitions: no contribution to the degree (result flagged piecewise by the caller)
        elif op == z3.Z3_OP_POWER:
            e = t.arg(1)
            if z3.is_rational_value(e) or z3.is_int_value(e):
                ev = int(str(e))
                r = (ch[0][0] * ev, ch[0][1] * ev)
            else:
                raise ValueError("symbolic exponent")
        else:
            raise ValueError("unsupported operator in degree computation: %s" % t.decl())
    memo[k] = r
    return r


def univariate_identities(pairs, var, points_from, avoid=(), part=0, nparts=1):
    """pairs: list of (label, lhs, rhs) Real terms in the single variable `var`.
    returns (bound, npoints, failures) where failures = [(label, point)] for ground instances that are not equal.
    Points are consecutive integers starting at points_from, skipping `avoid`."""
    vid = {var.get_id()}
    memo = {}
    B = 0
    for (_, l, r) in pairs:
        dl, dr = degree(l, vid, memo), degree(r, vid, memo)
        B = max(B, dl[0] + dr[1], dr[0] + dl[1])
    pts = []
    c = points_from
    while len(pts) < B + 1:
        if c not in avoid:
            pts.append(c)
        c += 1
    pts = pts[part::nparts]
    failures = []
    s = z3.Solver()
    conj = z3.And([l == r for (_, l, r) in pairs]) if len(pairs) > 1 else (pairs[0][1] == pairs[0][2])
    queries = 0
    for p in pts:
        g = z3.simplify(z3.substitute(conj, (var, z3.RealVal(p))))
        queries += 1
        if z3.is_true(g):
            continue
        s.push()
        s.add(z3.Not(g))
        r = s.check()
        s.pop()
        if r != z3.unsat:
            # find which
            for (lab, l, rr) in pairs:
                gi = z3.simplify(z3.substitute(l == rr, (var, z3.RealVal(p))))
                if not z3.is_true(gi):
                    failures.append((lab, p))
            break
    return B, len(pts), failures, queries
