"""math/big.Int as a mathematical integer (DESIGN 3.5), sync.Pool of big.Int, Montgomery bijection (3.3)."""
import z3
from .values import Unsupported, Ptr, Slice, Iface, is_term, b_and, b_or, b_not, simp_bool, cases_of

W = 1 << 64
BIG = "math/big.Int"


class BigVal:
    __slots__ = ("v", "dom")

    def __init__(self, v, dom):
        self.v = v
        self.dom = dom

    def __repr__(self):
        return "Big(%s)" % (self.v,)


class BigDom:
    def zero(self, tid):
        return BigVal(0, self)

    def ite(self, c, a, b):
        if not is_term(a.v) and not is_term(b.v) and a.v == b.v:
            return a
        A = a.v if is_term(a.v) else z3.IntVal(a.v)
        B = b.v if is_term(b.v) else z3.IntVal(b.v)
        return BigVal(z3.If(c, A, B), self)

    def same(self, ex, a, b):
        if not is_term(a.v) and not is_term(b.v):
            return a.v == b.v
        return simp_bool(a.v == b.v)

    equal = same

    def from_dump(self, ex, j, tid):
        fields = dict((k, v) for k, v in j["struct"])
        words = fields["abs"]
        words = words["slice"] if isinstance(words, dict) else words
        v = sum(int(w) << (64 * i) for i, w in enumerate(words or []))
        if fields["neg"]:
            v = -v
        return BigVal(v, self)


DOM = BigDom()


def _get(ex, p):
    return ex.load(p, BIG)


def _set(ex, p, v):
    ex.store_to(p, BigVal(v, DOM), BIG)


def big_setbytes(ex, args, ins):
    z, buf = args
    n = buf.len
    if is_term(n):
        raise Unsupported("big.Int.SetBytes with symbolic length")
    v = 0
    for i in range(n):
        b = ex.load(Ptr(buf.ptr.obj, buf.ptr.off + i, buf.ptr.sym), "uint8")
        if is_term(b) and z3.is_bv(b):
            b = z3.BV2Int(b)
        v = v * 256 + b if not (isinstance(v, int) and v == 0) else b
    _set(ex, z, v)
    return (z,)


def big_cmp(ex, args, ins):
    x, y = _get(ex, args[0]).v, _get(ex, args[1]).v
    if not is_term(x) and not is_term(y):
        return ((x > y) - (x < y),)
    if ex.ctx.intmode == "int":
        return (z3.If(x < y, z3.IntVal(-1), z3.If(x == y, z3.IntVal(0), z3.IntVal(1))),)
    return (z3.If(x < y, z3.BitVecVal(-1, 64), z3.If(x == y, z3.BitVecVal(0, 64), z3.BitVecVal(1, 64))),)


def big_set(ex, args, ins):
    _set(ex, args[0], _get(ex, args[1]).v)
    return (args[0],)


def big_mod(ex, args, ins):
    z, x, y = args
    xv, yv = _get(ex, x).v, _get(ex, y).v
    if is_term(yv):
        raise Unsupported("big.Int.Mod by symbolic modulus")
    if yv == 0:
        ex.panic_if(True, "big.Int.Mod: division by zero")
    if not is_term(xv):
        _set(ex, z, xv % yv)
        return (z,)
    r = z3.Int(ex.ctx.fresh_name("bigmod"))
    k = z3.Int(ex.ctx.fresh_name("bigquo"))
    ex.ctx.add_fact(z3.And(r >= 0, r < yv, xv == r + k * yv))
    _set(ex, z, r)
    return (z,)


def big_bits(ex, args, ins):
    """Bits(): little-endian words, normalised length"""
    xv = _get(ex, args[0]).v
    if not is_term(xv):
        ws = []
        a = abs(xv)
        while a:
            ws.append(a % W)
            a //= W
        ptr = ex.alloc("uint64", label="big.Bits", cells=ws, count=len(ws))
        return (Slice(ptr, len(ws), len(ws), "math/big.Word"),)
    nw = ex.ctx.params.get("big_words", 4)
    from .exec import Obligation
    ex.ctx.obligations.append(Obligation("big.Int.Bits: value fits %d words (encoder bound)" % nw, b_and(ex.guard, z3.Or(xv < 0, xv >= W ** nw)), "unwind"))
    ws = [z3.Int(ex.ctx.fresh_name("bw")) for _ in range(nw)]
    ex.ctx.add_fact(z3.And([z3.And(w >= 0, w < W) for w in ws] + [xv == sum(w * W ** i for i, w in enumerate(ws))]))
    ln = z3.IntVal(0)
    for i in range(nw):
        ln = z3.If(ws[i] > 0, z3.IntVal(i + 1), ln)
    ptr = ex.alloc("uint64", label="big.Bits", cells=ws, count=nw)
    return (Slice(ptr, ln, nw, "math/big.Word"),)


def big_bytes(ex, args, ins):
    """Bytes(): big-endian, minimal length (symbolic): one guarded slice per possible length"""
    from .values import Guarded
    xv = _get(ex, args[0]).v
    if not is_term(xv):
        bs = list(abs(xv).to_bytes((abs(xv).bit_length() + 7) // 8, "big")) if xv else []
        ptr = ex.alloc("uint8", label="big.Bytes", cells=bs, count=len(bs))
        return (Slice(ptr, len(bs), len(bs), "uint8"),)
    maxlen = ex.ctx.params.get("big_bytes_max", 32)
    cases = []
    for L in range(0, maxlen + 1):
        if L == 0:
            g = xv == 0
            ptr = ex.alloc("uint8", label="big.Bytes(len 0)", cells=[], count=0)
        else:
            g = z3.And(xv >= 256 ** (L - 1), xv < 256 ** L)
            bs = [z3.Int(ex.ctx.fresh_name("bb")) for _ in range(L)]
            val = 0
            for b in bs:
                val = val * 256 + b
            ex.ctx.add_fact(z3.Implies(g, z3.And([z3.And(b >= 0, b < 256) for b in bs] + [xv == val])))
            ptr = ex.alloc("uint8", label="big.Bytes(len %d)" % L, cells=bs, count=L)
        cases.append((g, Slice(ptr, L, L, "uint8")))
    from .exec import Obligation
    ex.ctx.obligations.append(Obligation("big.Int.Bytes: value fits %d bytes (encoder bound)" % maxlen, b_and(ex.guard, z3.Or(xv < 0, xv >= 256 ** maxlen)), "unwind"))
    return (Guarded(cases),)


def big_setuint64(ex, args, ins):
    _set(ex, args[0], args[1])
    return (args[0],)


def big_uint64(ex, args, ins):
    xv = _get(ex, args[0]).v
    if not is_term(xv):
        return (abs(xv) % W,)
    return (xv % W,)


def big_sign(ex, args, ins):
    xv = _get(ex, args[0]).v
    if not is_term(xv):
        return ((xv > 0) - (xv < 0),)
    return (z3.If(xv < 0, z3.IntVal(-1), z3.If(xv == 0, z3.IntVal(0), z3.IntVal(1))),)


def pool_get(ex, args, ins):
    v = z3.Int(ex.ctx.fresh_name("pooled"))
    ex.ctx.add_fact(v >= 0)
    p = ex.alloc(BIG, label="pooled big.Int", cells=[BigVal(v, DOM)])
    ex.ctx.pooled = getattr(ex.ctx, "pooled", []) + [p]
    return (Iface("*math/big.Int", p),)


def pool_put(ex, args, ins):
    """Put: no-op for the values, but the pool protocol is checked: an object must not be put twice (it would be handed
    to two goroutines at once)"""
    from .exec import Obligation
    v = args[1] if len(args) > 1 else None
    p = v.val if isinstance(v, Iface) else v
    for g, q in cases_of(p):
        if not isinstance(q, Ptr):
            continue
        k = ("POOLPUT", q.obj)
        prev = ex.store.get(k, False)
        if prev is not False:
            ex.ctx.obligations.append(Obligation("sync.Pool protocol: the same object is put back twice (shared between two later Get calls)",
                                                 b_and(ex.guard, g, prev), "assert", ins.get("pos", "") if ins else ""))
        from .values import b_or
        ex.write(k, b_or(prev, b_and(ex.guard, g)))
    return ()


INTRINSICS = {
    "(*math/big.Int).SetBytes": big_setbytes, "(*math/big.Int).Cmp": big_cmp, "(*math/big.Int).Set": big_set,
    "(*math/big.Int).Mod": big_mod, "(*math/big.Int).Bits": big_bits, "(*math/big.Int).SetUint64": big_setuint64,
    "(*math/big.Int).Uint64": big_uint64, "(*math/big.Int).Sign": big_sign, "(*math/big.Int).Bytes": big_bytes,
    "(*sync.Pool).Get": pool_get, "(*sync.Pool).Put": pool_put,
}


def install(ex):
    ex.prog.opaque[BIG] = DOM
    ex.prog._lay.clear()
    ex.intrinsics.update(INTRINSICS)


# ---------------------------------------------------------------- Montgomery form as a bijection (Int mode)
MONT = z3.Function("MONT", z3.IntSort(), z3.IntSort())
UNMONT = z3.Function("UNMONT", z3.IntSort(), z3.IntSort())


def install_mont(ex, pkg, q, rsquare_global):
    """summaries of fr.mul(z, x, &rSquare) = MONT(x) and fr.fromMont(z) = UNMONT(z): the contracts proved at limb level in C15"""
    def limbs_of(ex_, p):
        return [ex_.load(Ptr(p.obj, p.off + i, p.sym), "uint64") for i in range(4)]

    def put(ex_, p, V, tag):
        ws = [z3.Int(ex_.ctx.fresh_name(tag)) for _ in range(4)]
        ex_.ctx.add_fact(z3.And([z3.And(w >= 0, w < W) for w in ws] + [V == sum(w * W ** i for i, w in enumerate(ws)), V >= 0, V < q]))
        for i in range(4):
            ex_.store_to(Ptr(p.obj, p.off + i, p.sym), ws[i], "uint64")

    def val(ls):
        return sum((l if is_term(l) else z3.IntVal(l)) * W ** i for i, l in enumerate(ls))

    def mul(ex_, args, ins):
        z, x, y = args
        rs = ex_.global_ptr(rsquare_global)
        if not (isinstance(y, Ptr) and y.obj == rs.obj and y.off == rs.off):
            raise Unsupported("fr.mul with second operand other than rSquare in the encoding-level model")
        X = val(limbs_of(ex_, x))
        V = MONT(X)
        ex_.ctx.add_fact(z3.Implies(z3.And(X >= 0, X < q), UNMONT(V) == X))
        if not is_term(X) or z3.is_int_value(z3.simplify(X)):
            pass
        put(ex_, z, V, "mt")
        ex_.ctx.mont_calls = getattr(ex_.ctx, "mont_calls", []) + [("MONT", X, ex_.guard)]
        return ()

    def frommont(ex_, args, ins):
        z = args[0]
        ls = limbs_of(ex_, z)
        if not any(is_term(l) for l in ls):
            xc = sum(l << (64 * i) for i, l in enumerate(ls))
            vc = xc * pow(1 << 256, -1, q) % q
            for i in range(4):
                ex_.store_to(Ptr(z.obj, z.off + i, z.sym), (vc >> (64 * i)) & (W - 1), "uint64")
            return ()
        X = val(ls)
        V = UNMONT(X)
        ex_.ctx.add_fact(z3.Implies(z3.And(X >= 0, X < q), MONT(V) == X))
        put(ex_, z, V, "um")
        ex_.ctx.mont_calls = getattr(ex_.ctx, "mont_calls", []) + [("UNMONT", X, ex_.guard)]
        return ()
    ex.intrinsics[pkg + ".mul"] = mul
    ex.intrinsics[pkg + ".fromMont"] = frommont
    ex.ctx.add_fact(MONT(z3.IntVal(0)) == 0)
    ex.ctx.add_fact(UNMONT(z3.IntVal(0)) == 0)
