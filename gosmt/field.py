"""Field-element value domains above the limb level (DESIGN 3.4).

A field element type (bandersnatch/fr.Element or gnark's fr.Element = the base field Fp) becomes an opaque
one-cell type; its methods are summarised by the field operation whose limb-level contract is C15.

RealDom  (A_Q): a value is a z3 Real term built from the harness's input symbols with + - * /.  Only
                hypothesis-free identities are asked (plus recorded denominator != 0 facts), which hold
                in every field where the denominators are non-zero.
ExpDom   (E)  : elements of the 2^32 subgroup as 32-bit exponents of the fixed generator.
PowDom   (P)  : powers x^a * g^e of one symbolic element x: (a: python int, e: BitVec32 or int).
"""
import z3
from .values import Unsupported, Ptr, Slice, Iface, is_term, b_and, b_or, b_not, simp_bool, cases_of

REPO_FR = "github.com/crate-crypto/go-ipa/bandersnatch/fr"
GNARK_FR = "github.com/consensys/gnark-crypto/ecc/bls12-381/fr"


class FVal:
    __slots__ = ("t", "dom", "tag")

    def __init__(self, t, dom, tag=None):
        self.t = t
        self.dom = dom
        self.tag = tag      # 'zero' / 'nonzero' / None: syntactic knowledge used for IsZero (substitution discipline)

    def __repr__(self):
        return "F(%s)" % (self.t,)


class RealDom:
    name = "A_Q"

    def __init__(self):
        self.nonzero_assumptions = []

    def const(self, k):
        return FVal(z3.RealVal(k), self, "zero" if k == 0 else "nonzero")

    def zero(self, tid=None):
        return self.const(0)

    def sym(self, name, nonzero=False, ctx=None):
        v = z3.Real(name)
        if nonzero and ctx is not None:
            ctx.add_fact(v != 0)
        return FVal(v, self, "nonzero" if nonzero else None)

    def add(self, a, b):
        if a.tag == "zero":
            return b
        if b.tag == "zero":
            return a
        return FVal(a.t + b.t, self)

    def sub(self, a, b):
        if b.tag == "zero":
            return a
        return FVal(a.t - b.t, self)

    def neg(self, a):
        if a.tag == "zero":
            return a
        return FVal(-a.t, self, a.tag)

    def mul(self, a, b):
        if a.tag == "zero" or b.tag == "zero":
            return self.const(0)
        return FVal(a.t * b.t, self, "nonzero" if (a.tag == "nonzero" and b.tag == "nonzero") else None)

    def inv(self, a, ctx):
        if a.tag == "zero":
            return a        # Inverse(0) = 0 in this code base
        if a.tag != "nonzero":
            # recorded non-zero assumption (the zero case is outside the claim of the harness)
            ctx.add_fact(a.t != 0)
            self.nonzero_assumptions.append(a.t)
        return FVal(1 / a.t, self, "nonzero")

    def is_zero(self, a, ctx):
        if a.tag == "zero":
            return True
        if a.tag == "nonzero":
            return False
        s = z3.simplify(a.t)
        if z3.is_rational_value(s):
            return s.numerator_as_long() == 0
        # compound term: field-valued tests never enter a path condition; record t != 0 as an assumption
        ctx.add_fact(a.t != 0)
        self.nonzero_assumptions.append(a.t)
        return False

    def eq_formula(self, a, b):
        return a.t == b.t

    def limb(self, a, i, ctx):
        """limb i of the regular integer representative; only meaningful on ground (integer) instances"""
        ctx.piecewise = True
        v = z3.ToInt(a.t)
        w = z3.Int2BV(v / (2 ** (64 * i)), 64) if i else z3.Int2BV(v, 64)
        return w

    def ite(self, c, a, b):
        if a is b:
            return a
        return FVal(z3.If(c, a.t, b.t), self, a.tag if a.tag == b.tag else None)

    def same(self, ex, a, b):
        if a.t.eq(b.t):
            return True
        return a.t == b.t

    equal = same

    def from_dump(self, ex, j, tid):
        raise Unsupported("field constant from native dump is not available in the rational domain (override the global)")


class ExpDom:
    """elements g^e of the 2^32 subgroup; e is a 32-bit exponent"""
    name = "E"

    def const(self, k):
        if k == 1:
            return FVal(z3.BitVecVal(0, 32), self)
        raise Unsupported("constant %s in the exponent domain" % k)

    def zero(self, tid=None):
        return FVal(None, self, "uninit")

    def add(self, a, b):
        raise Unsupported("addition in the exponent domain")

    sub = add

    def mul(self, a, b):
        return FVal(z3.simplify(a.t + b.t), self)

    def square(self, a):
        return FVal(z3.simplify(a.t << 1), self)

    def ite(self, c, a, b):
        if a.t is None:
            return b
        if b.t is None:
            return a
        return FVal(z3.If(c, a.t, b.t), self)

    def same(self, ex, a, b):
        if a.t is None or b.t is None:
            return a.t is None and b.t is None
        return simp_bool(a.t == b.t)

    equal = same

    def from_dump(self, ex, j, tid):
        return FVal(None, self, "native")


def elem_ops(ex, T, dom, pkg):
    """register summaries for the methods of element type T ('pkg.Element')"""
    I = ex.intrinsics
    ex.prog.opaque[T] = dom
    ex.prog._lay.clear()
    pre = "(*%s)." % T

    def ld(ex_, p):
        return ex_.load(p, T)

    def st(ex_, p, v):
        ex_.store_to(p, v, T)

    def bin_(fn):
        def f(ex_, args, ins):
            z, x, y = args
            ex_.ctx.field_ops = getattr(ex_.ctx, "field_ops", 0) + 1
            st(ex_, z, fn(ld(ex_, x), ld(ex_, y)))
            return (z,)
        return f

    def un_(fn):
        def f(ex_, args, ins):
            z, x = args
            ex_.ctx.field_ops = getattr(ex_.ctx, "field_ops", 0) + 1
            st(ex_, z, fn(ld(ex_, x)))
            return (z,)
        return f
    I[pre + "Mul"] = bin_(dom.mul)
    I[pre + "Add"] = bin_(dom.add)
    I[pre + "Sub"] = bin_(dom.sub)
    I[pre + "Square"] = un_(lambda a: dom.square(a) if hasattr(dom, "square") else dom.mul(a, a))
    I[pre + "Set"] = un_(lambda a: a)
    if hasattr(dom, "neg"):
        I[pre + "Neg"] = un_(dom.neg)
        I[pre + "Double"] = un_(lambda a: dom.add(a, a))
    if hasattr(dom, "inv"):
        I[pre + "Inverse"] = lambda ex_, args, ins: (st(ex_, args[0], dom.inv(ld(ex_, args[1]), ex_.ctx)), (args[0],))[1]
        I[pre + "Div"] = lambda ex_, args, ins: (st(ex_, args[0], dom.mul(ld(ex_, args[1]), dom.inv(ld(ex_, args[2]), ex_.ctx))), (args[0],))[1]
        I[pre + "IsZero"] = lambda ex_, args, ins: (dom.is_zero(ld(ex_, args[0]), ex_.ctx),)
        I[pre + "SetZero"] = lambda ex_, args, ins: (st(ex_, args[0], dom.const(0)), (args[0],))[1]
        I[pre + "SetUint64"] = lambda ex_, args, ins: (st(ex_, args[0], _const_u64(ex_, dom, args[1])), (args[0],))[1]
        I[pkg + ".Zero"] = lambda ex_, args, ins: (dom.const(0),)
        I[pkg + ".MulBy5"] = lambda ex_, args, ins: (st(ex_, args[0], dom.mul(ld(ex_, args[0]), dom.const(5))), ())[1]
    if isinstance(dom, RealDom):
        def cmp_(ex_, args, ins):
            a, b = ld(ex_, args[0]), ld(ex_, args[1])
            # order of the regular integer representatives; only meaningful on ground instances (see polyid)
            ex_.ctx.piecewise = True
            one, zero, neg = (z3.BitVecVal(1, 64), z3.BitVecVal(0, 64), z3.BitVecVal(-1, 64)) if ex_.ctx.intmode == "bv" else (z3.IntVal(1), z3.IntVal(0), z3.IntVal(-1))
            return (z3.If(a.t < b.t, neg, z3.If(a.t == b.t, zero, one)),)
        I[pre + "Cmp"] = cmp_
        I["(%s).ToRegular" % T] = lambda ex_, args, ins: (args[0],)
        I[pre + "FromMont"] = lambda ex_, args, ins: (args[0],)
    I[pre + "SetOne"] = lambda ex_, args, ins: (st(ex_, args[0], dom.const(1)), (args[0],))[1]
    I[pkg + ".One"] = lambda ex_, args, ins: (dom.const(1),)


def _const_u64(ex, dom, v):
    if is_term(v):
        s = z3.simplify(v)
        if z3.is_bv_value(s) or z3.is_int_value(s):
            v = s.as_long()
        else:
            if z3.is_bv(v):
                # small symbolic integers (domain indices): exact embedding into the rationals
                return FVal(z3.ToReal(z3.BV2Int(v)), dom)
            return FVal(z3.ToReal(v), dom)
    return dom.const(v)


def install_real(ex, types=("repo", "gnark")):
    dom = RealDom()
    ex.ctx.fdom = dom
    if "repo" in types:
        elem_ops(ex, REPO_FR + ".Element", dom, REPO_FR)
    if "gnark" in types:
        elem_ops(ex, GNARK_FR + ".Element", dom, GNARK_FR)
        ex.intrinsics["github.com/crate-crypto/go-ipa/bandersnatch/fp.One"] = lambda ex_, args, ins: (dom.const(1),)
        ex.intrinsics["github.com/crate-crypto/go-ipa/bandersnatch/fp.Zero"] = lambda ex_, args, ins: (dom.const(0),)
    return dom


class ModDom:
    """concrete residues modulo a prime: closed computations run through the executor (table construction)"""
    name = "mod p (concrete)"

    def __init__(self, p):
        self.p = p

    def const(self, k):
        return FVal(k % self.p, self)

    def zero(self, tid=None):
        return self.const(0)

    def add(self, a, b):
        return FVal((a.t + b.t) % self.p, self)

    def sub(self, a, b):
        return FVal((a.t - b.t) % self.p, self)

    def neg(self, a):
        return FVal((-a.t) % self.p, self)

    def mul(self, a, b):
        return FVal((a.t * b.t) % self.p, self)

    def inv(self, a, ctx):
        return FVal(pow(a.t, -1, self.p) if a.t else 0, self)

    def is_zero(self, a, ctx):
        return a.t == 0

    def ite(self, c, a, b):
        if a.t == b.t:
            return a
        raise Unsupported("symbolic merge of concrete residues")

    def same(self, ex, a, b):
        return a.t == b.t

    equal = same

    def from_dump(self, ex, j, tid):
        raise Unsupported("residue from dump")


def install_mod(ex, p, types=("repo",)):
    dom = ModDom(p)
    ex.ctx.fdom = dom
    if "repo" in types:
        elem_ops(ex, REPO_FR + ".Element", dom, REPO_FR)
    if "gnark" in types:
        elem_ops(ex, GNARK_FR + ".Element", dom, GNARK_FR)
    return dom
