"""Group-level summaries of the gnark-crypto twisted-Edwards point types (domain G, DESIGN 3.4).

Convention: the base-field element type is opaque; the group value of a point (PointProj, PointAffine,
PointExtended, banderwagon.Element) is carried in the cell of its X coordinate, the other coordinate cells
are placeholders.  Struct copies and field-wise construction (Element{inner: PointProj{X: r.X, ...}}) then
move group values around exactly as the real code moves coordinates."""
import z3
from .values import Unsupported, Ptr, Slice, is_term, b_and, b_or, b_not, simp_bool, cases_of
from .group import GDom, GVal

GB = "github.com/consensys/gnark-crypto/ecc/bls12-381/bandersnatch"
GFR = "github.com/consensys/gnark-crypto/ecc/bls12-381/fr.Element"
MOD = "github.com/crate-crypto/go-ipa"
BS = MOD + "/bandersnatch"
BW = MOD + "/banderwagon"


def xcell(p):
    return Ptr(p.obj, p.off, p.sym)


def getg(ex, p):
    return ex.load(xcell(p), GFR)


def setg(ex, p, v, ncoord):
    gd = v.dom
    ex.store_to(xcell(p), v, GFR)
    for i in range(1, ncoord):
        ex.store_to(Ptr(p.obj, p.off + i, p.sym), gd.zero(), GFR)


def install(ex, gd, scalar_of_big=None, scalar_of_fr=None):
    """gd: GDom.  scalar_of_big(ex, bigptr) -> coefficient term for ScalarMultiplication;
    scalar_of_fr(ex, frptr) -> coefficient term for banderwagon.Element.ScalarMul"""
    ex.prog.opaque[GFR] = gd
    ex.prog._lay.clear()
    ex.ctx.gd = gd
    I = ex.intrinsics

    def binop(ncoord, sign=1):
        def f(ex_, args, ins):
            z, a, b = args
            ex_.ctx.group_ops = getattr(ex_.ctx, "group_ops", 0) + 1
            setg(ex_, z, gd.add(getg(ex_, a), getg(ex_, b), sign), ncoord)
            return (z,)
        return f

    def unop(ncoord, fn):
        def f(ex_, args, ins):
            z, a = args
            setg(ex_, z, fn(getg(ex_, a)), ncoord)
            return (z,)
        return f
    for T, nc in (("PointProj", 3), ("PointExtended", 4)):
        pre = "(*%s.%s)." % (GB, T)
        I[pre + "Add"] = binop(nc)
        I[pre + "MixedAdd"] = binop(nc)
        I[pre + "Double"] = unop(nc, gd.double)
        I[pre + "Neg"] = unop(nc, gd.neg)
        I[pre + "Set"] = unop(nc, lambda v: v)
        I[pre + "FromAffine"] = unop(nc, lambda v: v)
        I[pre + "setInfinity"] = lambda ex_, args, ins, nc=nc: (setg(ex_, args[0], gd.zero(), nc), (args[0],))[1]
    I["(*%s.PointAffine).FromProj" % GB] = unop(2, lambda v: v)
    I["(*%s.PointAffine).Neg" % GB] = unop(2, gd.neg)
    I["(*%s.PointAffine).Set" % GB] = unop(2, lambda v: v)

    def coord_set(ex_, args, ins):
        ex_.store_to(args[0], ex_.load(args[1], GFR), GFR)
        return (args[0],)
    I["(*%s).Set" % GFR] = coord_set

    def scalarmult(ex_, args, ins):
        z, a, big = args
        if scalar_of_big is None:
            raise Unsupported("ScalarMultiplication without scalar model")
        s = scalar_of_big(ex_, big)
        setg(ex_, z, gd.scale(getg(ex_, a), s), 3)
        return (z,)
    I["(*%s.PointProj).ScalarMultiplication" % GB] = scalarmult

    # repo-level helpers that are pure group operations
    I[BS + ".PointExtendedFromProj"] = lambda ex_, args, ins: ((getg(ex_, args[0]),) + tuple(gd.zero() for _ in range(3)),)

    def extaddnorm(ex_, args, ins):
        p, p1, p2 = args
        setg(ex_, p, gd.add(getg(ex_, p1), getg(ex_, p2)), 4)
        return (p,)
    I[BS + ".ExtendedAddNormalized"] = extaddnorm
    I["(*%s.PointExtendedNormalized).Neg" % BS] = unop(3, gd.neg)
    for name in (BS + ".Identity", BS + ".IdentityExt", BW + ".Identity"):
        def ov(ex_, tid, name=name):
            n = ex_.prog.ncells(tid)
            return ex_.alloc(tid, label="global " + name, cells=[gd.zero() for _ in range(n)])
        ex.global_override[name] = ov
