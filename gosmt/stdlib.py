"""Intrinsics for the standard library surface (DESIGN 3.5): math/bits, math/big, sync.Pool, fmt/errors."""
import z3
from .values import (Unsupported, Ptr, Slice, Iface, Guarded, is_term, b_and, b_or, b_not, simp_bool, cases_of)
from .iops import norm

W = 1 << 64


def _used_results(ex, ins):
    """indices of the call's tuple result that are extracted somewhere in the calling function (None = unknown)"""
    return ins.get("_used") if ins else None


def annotate_used_results(prog):
    """liveness of tuple components: an Extract whose register is never referenced is a dropped result"""
    def refs(o, acc):
        if isinstance(o, str):
            if o.startswith("r:"):
                acc.add(o)
        elif isinstance(o, list):
            for x in o:
                refs(x, acc)
        elif isinstance(o, dict):
            for k, x in o.items():
                if k not in ("name", "type", "pos", "op", "comment"):
                    refs(x, acc)
    for f in prog.funcs.values():
        if "blocks" not in f:
            continue
        calls = {}
        used = set()
        for b in f["blocks"]:
            for ins in b["instrs"]:
                if ins["op"] == "Call" and "name" in ins:
                    calls["r:" + ins["name"]] = ins
                    ins["_used"] = set()
                if ins["op"] != "Extract":
                    refs(ins, used)
        for b in f["blocks"]:
            for ins in b["instrs"]:
                if ins["op"] == "Extract" and ins["tuple"] in calls and ("r:" + ins["name"]) in used:
                    calls[ins["tuple"]]["_used"].add(ins["index"])


# ---------------------------------------------------------------- math/bits
def bits_add64(ex, args, ins):
    a, b, c = args
    if not (is_term(a) or is_term(b) or is_term(c)):
        s = a + b + c
        return (s % W, s // W)
    if ex.ctx.intmode == "bv":
        A, B, C = [x if is_term(x) else z3.BitVecVal(x, 64) for x in (a, b, c)]
        s = z3.ZeroExt(1, A) + z3.ZeroExt(1, B) + z3.ZeroExt(1, C)
        return (z3.Extract(63, 0, s), z3.ZeroExt(63, z3.Extract(64, 64, s)))
    mk = ("add64",) + tuple(x.get_id() if is_term(x) else x for x in (a, b, c))
    hit = ex.ctx.memo.get(mk)
    if hit is not None:
        return hit[:2]
    lo = z3.Int(ex.ctx.fresh_name("alo"))
    cy = z3.Int(ex.ctx.fresh_name("acy"))
    ex.ctx.memo[mk] = (lo, cy, a, b, c)
    ex.ctx.add_fact(z3.And(lo >= 0, lo < W, cy >= 0, cy <= 1, a + b + c == lo + W * cy))
    used = _used_results(ex, ins)
    if used is not None:
        if 0 not in used:
            ex.ctx.lemma_candidates.append(("dropped sum word of bits.Add64 at %s is 0" % ins.get("pos", ""), ex.guard, lo))
        if 1 not in used:
            ex.ctx.lemma_candidates.append(("dropped carry of bits.Add64 at %s is 0" % ins.get("pos", ""), ex.guard, cy))
    return (lo, cy)


def bits_sub64(ex, args, ins):
    a, b, c = args
    if not (is_term(a) or is_term(b) or is_term(c)):
        s = a - b - c
        return (s % W, 1 if s < 0 else 0)
    if ex.ctx.intmode == "bv":
        A, B, C = [x if is_term(x) else z3.BitVecVal(x, 64) for x in (a, b, c)]
        s = z3.ZeroExt(1, A) - z3.ZeroExt(1, B) - z3.ZeroExt(1, C)
        return (z3.Extract(63, 0, s), z3.ZeroExt(63, z3.Extract(64, 64, s)))
    mk = ("sub64",) + tuple(x.get_id() if is_term(x) else x for x in (a, b, c))
    hit = ex.ctx.memo.get(mk)
    if hit is not None:
        return hit[:2]
    lo = z3.Int(ex.ctx.fresh_name("slo"))
    bw = z3.Int(ex.ctx.fresh_name("sbw"))
    ex.ctx.memo[mk] = (lo, bw, a, b, c)
    ex.ctx.add_fact(z3.And(lo >= 0, lo < W, bw >= 0, bw <= 1, a - b - c == lo - W * bw))
    used = _used_results(ex, ins)
    if used is not None and 1 not in used:
        ex.ctx.lemma_candidates.append(("dropped borrow of bits.Sub64 at %s is 0" % ins.get("pos", ""), ex.guard, bw))
    return (lo, bw)


def bits_mul64(ex, args, ins):
    a, b = args
    if not (is_term(a) or is_term(b)):
        p = a * b
        return (p // W, p % W)
    if ex.ctx.intmode == "bv":
        A, B = [x if is_term(x) else z3.BitVecVal(x, 64) for x in (a, b)]
        p = z3.ZeroExt(64, A) * z3.ZeroExt(64, B)
        return (z3.Extract(127, 64, p), z3.Extract(63, 0, p))
    mk = ("mul64",) + tuple(sorted((x.get_id() if is_term(x) else -1 - x) for x in (a, b)))
    hit = ex.ctx.memo.get(mk)
    if hit is not None:
        return hit[:2]
    hi = z3.Int(ex.ctx.fresh_name("mhi"))
    lo = z3.Int(ex.ctx.fresh_name("mlo"))
    ex.ctx.memo[mk] = (hi, lo, a, b)
    if is_term(a) and is_term(b):
        key = tuple(sorted((a.get_id(), b.get_id())))
        P = ex.ctx.products.get(key)
        if P is None:
            P = z3.Int(ex.ctx.fresh_name("P"))
            ex.ctx.products[key] = P
            ex.ctx.product_terms[key] = (a, b, P)
            ex.ctx.add_fact(z3.And(P >= 0, P <= (W - 1) * a, P <= (W - 1) * b))
        prod = P
    else:
        x, c = (a, b) if is_term(a) else (b, a)
        prod = x * c
        ch = ex.ctx.mulchain.get(x.get_id())
        if ch is not None:
            x0, c0, _ = ch
            k = z3.Int(ex.ctx.fresh_name("cf"))
            ex.ctx.add_fact(x0 * ((c0 * c) % W) == lo + W * k)
    ex.ctx.add_fact(z3.And(hi >= 0, hi < W, lo >= 0, lo < W, prod == hi * W + lo))
    used = _used_results(ex, ins)
    if used is not None:
        if 1 not in used:
            ex.ctx.lemma_candidates.append(("dropped low word of bits.Mul64 at %s is 0" % ins.get("pos", ""), ex.guard, lo))
        if 0 not in used:
            ex.ctx.lemma_candidates.append(("dropped high word of bits.Mul64 at %s is 0" % ins.get("pos", ""), ex.guard, hi))
    return (hi, lo)


def bits_len64(ex, args, ins):
    x = args[0]
    if not is_term(x):
        return (x.bit_length(),)
    if ex.ctx.intmode != "bv":
        raise Unsupported("bits.Len64 in int mode")
    r = z3.BitVecVal(0, 64)
    for i in range(64):
        r = z3.If(z3.Extract(i, i, x) == 1, z3.BitVecVal(i + 1, 64), r)
    return (r,)


BITS = {
    "math/bits.Add64": bits_add64, "math/bits.Sub64": bits_sub64, "math/bits.Mul64": bits_mul64,
    "math/bits.Len64": bits_len64,
}


# ---------------------------------------------------------------- errors / fmt
class GoError:
    def __init__(self, msg):
        self.msg = msg

    def invoke(self, ex, method, args, ins):
        if method == "Error":
            return self.msg
        raise Unsupported("error." + method)

    def __repr__(self):
        return "GoError(%r)" % (self.msg,)


def mk_error(msg):
    return Iface("*errors.errorString", GoError(msg))


def fmt_errorf(ex, args, ins):
    fmtstr = args[0] if isinstance(args[0], str) else "error"
    return (mk_error(fmtstr),)


def errors_new(ex, args, ins):
    return (mk_error(args[0] if isinstance(args[0], str) else "error"),)


def fmt_sprintf(ex, args, ins):
    return (args[0] if isinstance(args[0], str) else "",)


ERRS = {"fmt.Errorf": fmt_errorf, "errors.New": errors_new, "fmt.Sprintf": fmt_sprintf}


def install(ex):
    ex.intrinsics.update(BITS)
    ex.intrinsics.update(ERRS)
    ex.ctx.products = {}
    ex.ctx.product_terms = {}


# ---------------------------------------------------------------- encoding/binary (integer encoding: bytes are fresh
# variables defined by v = sum b_t 256^t, instead of div/mod chains)
def _put_uint64(big):
    def f(ex, args, ins):
        _, buf, v = args
        if ex.ctx.intmode != "int" or not is_term(v):
            raise Unsupported("PutUint64 stub is for the integer encoding")
        ln = buf.len
        if is_term(ln) or ln < 8:
            ex.panic_if(True if not is_term(ln) else simp_bool(ln < 8), "PutUint64: short buffer")
        bs = [z3.Int(ex.ctx.fresh_name("pb")) for _ in range(8)]
        ex.ctx.add_fact(z3.And([z3.And(b >= 0, b < 256) for b in bs] + [v == sum(b * 256 ** t for t, b in enumerate(bs))]))
        for t in range(8):
            pos = (7 - t) if big else t
            ex.store_to(Ptr(buf.ptr.obj, buf.ptr.off + pos, buf.ptr.sym), bs[t], "uint8")
        return ()
    return f


def install_binary_int(ex):
    ex.intrinsics["(encoding/binary.bigEndian).PutUint64"] = _put_uint64(True)
    ex.intrinsics["(encoding/binary.littleEndian).PutUint64"] = _put_uint64(False)
