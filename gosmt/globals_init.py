"""Package-level variables: values come from a native run of the package's own init code
(reflection dump produced by a generated test file, see driver.dump_globals)."""
from .values import Unsupported, Ptr, Slice, Iface
from .iops import norm

GLOBDUMP_HELPER = r'''
func vdump(v reflect.Value, depth int) interface{} {
	if depth > 12 {
		return map[string]interface{}{"deep": true}
	}
	switch v.Kind() {
	case reflect.Bool:
		return v.Bool()
	case reflect.Int, reflect.Int8, reflect.Int16, reflect.Int32, reflect.Int64:
		return strconv.FormatInt(v.Int(), 10)
	case reflect.Uint, reflect.Uint8, reflect.Uint16, reflect.Uint32, reflect.Uint64, reflect.Uintptr:
		return strconv.FormatUint(v.Uint(), 10)
	case reflect.Float32, reflect.Float64:
		return map[string]interface{}{"float": v.Float()}
	case reflect.String:
		return map[string]interface{}{"s": v.String()}
	case reflect.Array:
		out := make([]interface{}, v.Len())
		for i := 0; i < v.Len(); i++ {
			out[i] = vdump(v.Index(i), depth+1)
		}
		return out
	case reflect.Slice:
		if v.IsNil() {
			return map[string]interface{}{"slice": nil}
		}
		out := make([]interface{}, v.Len())
		for i := 0; i < v.Len(); i++ {
			out[i] = vdump(v.Index(i), depth+1)
		}
		return map[string]interface{}{"slice": out}
	case reflect.Struct:
		out := [][]interface{}{}
		for i := 0; i < v.NumField(); i++ {
			out = append(out, []interface{}{v.Type().Field(i).Name, vdump(v.Field(i), depth+1)})
		}
		return map[string]interface{}{"struct": out}
	case reflect.Ptr:
		if v.IsNil() {
			return nil
		}
		return map[string]interface{}{"ptr": vdump(v.Elem(), depth+1)}
	case reflect.Map:
		if v.IsNil() {
			return map[string]interface{}{"map": nil}
		}
		out := [][]interface{}{}
		it := v.MapRange()
		for it.Next() {
			out = append(out, []interface{}{vdump(it.Key(), depth+1), vdump(it.Value(), depth+1)})
		}
		return map[string]interface{}{"map": out}
	case reflect.Interface:
		if v.IsNil() {
			return nil
		}
		return map[string]interface{}{"iface": v.Elem().Type().String(), "val": vdump(v.Elem(), depth+1)}
	default:
		return map[string]interface{}{"unsupported": v.Kind().String()}
	}
}
'''


def gen_globdump_test(pkgname, names):
    lines = ["package " + pkgname, "", "import (", '\t"encoding/json"', '\t"os"', '\t"reflect"', '\t"strconv"', '\t"testing"', ")", ""]
    lines.append("func TestVerifGlobDump(t *testing.T) {")
    lines.append("\tm := map[string]interface{}{}")
    for n in names:
        lines.append('\tm["%s"] = vdump(reflect.ValueOf(&%s).Elem(), 0)' % (n, n))
    lines.append("\traw, err := json.Marshal(m)")
    lines.append("\tif err != nil { t.Fatal(err) }")
    lines.append('\tif err := os.WriteFile(os.Getenv("VERIF_GLOBDUMP_OUT"), raw, 0o644); err != nil { t.Fatal(err) }')
    lines.append("}")
    lines.append(GLOBDUMP_HELPER)
    return "\n".join(lines)


def build_value(ex, j, tid):
    """JSON dump -> list of flat cells for type tid"""
    p = ex.prog
    if p.is_opaque(tid):
        return [p.opaque[p.unalias(tid)].from_dump(ex, j, tid)]
    d = p.under(tid)
    k = d["kind"]
    if k == "basic":
        kk = p.kind(tid)
        if kk == "int":
            w, s = p.int_info(tid)
            return [norm(int(j), w, s)]
        if kk == "bool":
            return [bool(j)]
        if kk == "string":
            return [j["s"]]
        if kk == "float":
            return [float(j["float"])]
        raise Unsupported("global of basic type " + d["name"])
    if k == "array":
        out = []
        for e in j:
            out.extend(build_value(ex, e, d["elem"]))
        return out
    if k == "struct":
        out = []
        fields = j["struct"]
        for f, (fname, fv) in zip(d["fields"], fields):
            out.extend(build_value(ex, fv, f["type"]))
        return out
    if k == "slice":
        items = j["slice"]
        if items is None:
            return [Slice(None, 0, 0, d["elem"])]
        cells = []
        for e in items:
            cells.extend(build_value(ex, e, d["elem"]))
        ptr = ex.alloc(d["elem"], label="global slice backing", cells=cells, count=len(items))
        return [Slice(ptr, len(items), len(items), d["elem"])]
    if k == "pointer":
        if j is None:
            return [None]
        cells = build_value(ex, j["ptr"], d["elem"])
        return [ex.alloc(d["elem"], label="global pointee", cells=cells)]
    if k == "map":
        from .conc import make_map, map_update
        if j["map"] is None:
            return [None]
        m = make_map(ex)
        for kj, vj in j["map"]:
            kc = build_value(ex, kj, d["key"])
            vc = build_value(ex, vj, d["elem"])
            map_update(ex, m, ex.from_cells(kc, d["key"]), ex.from_cells(vc, d["elem"]))
        return [m]
    if k == "interface":
        if j is None:
            return [None]
        from .stdlib import GoError
        return [Iface(j.get("iface", "native"), GoError("native value %s" % (j.get("val"),)))]
    if k in ("func", "chan"):
        if j is None:
            return [None]
        raise Unsupported("global of kind " + k)
    raise Unsupported("global of kind " + k)


def build_global(ex, j, tid):
    return build_value(ex, j, tid)
