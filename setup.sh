#!/bin/bash
# builds the framework from files on disk only (offline)
set -e
cd "$(dirname "$0")"
export GOFLAGS=-mod=mod GOPROXY=off GOSUMDB=off GOTOOLCHAIN=local
mkdir -p bin evidence replays .work
(cd tools/ssa2json && go build -o ../../bin/ssa2json .)
python3-vt -c "import z3; print('z3', z3.get_version_string())"
echo setup ok
